import Driver.Util
import F3.Model.SimOracle
import F3.Spec.SimOracle
/-! Driver for area `sim` (C19a). Replays `h_sim`'s log through `F3.SimOracle` and evaluates the
property's executable statement on what the real simulator did:

* `SIM-ORACLE-UNSOUND` — a decision that is not sound (wrong instance / phase / round / empty /
  wrong base / signer outside the table / signers below a strong quorum / aggregate not verifying) was
  accepted by `validateDecision` / `NotifyDecision`, or a `Run` in which such a decision was handed
  to `Host.ReceiveDecision` — or in which two honest completers were recorded with different values —
  returned no error. -/
namespace Driver.Sim
open Driver F3 F3.SimOracle

abbrev KV := List (String × String)

def parseKV (toks : List String) : KV :=
  toks.filterMap fun t =>
    match t.splitOn "=" with
    | [k, v] => some (k, v)
    | _ => none

def getn (kv : KV) (k : String) : Option Nat := (kv.lookup k).bind (·.toNat?)
def gets (kv : KV) (k : String) : String := (kv.lookup k).getD ""

def parseDots (s : String) : Option (List Nat) := (s.splitOn ".").mapM (·.toNat?)

def parseValue (s : String) : Option (Option (List Nat)) :=
  if s == "_" then some none
  else if s == "e" then some (some [])
  else (parseDots s).map some

def parsePayload (s : String) : Option Payload :=
  match s.splitOn "," with
  | [i, r, ph, sp, v] =>
    match i.toNat?, r.toNat?, ph.toNat?, sp.toNat?, parseValue v with
    | some i, some r, some ph, some sp, some v => some { inst := i, round := r, phase := ph, supp := sp, value := v }
    | _, _, _, _, _ => none
  | _ => none

def parseDecision (kv : KV) : Option Decision :=
  match getn kv "di", getn kv "ph", getn kv "rd", getn kv "sp", parseValue (gets kv "val"), parseNatList? (gets kv "sg") with
  | some di, some ph, some rd, some sp, some v, some sg =>
    let vote : Payload := { inst := di, round := rd, phase := ph, supp := sp, value := v }
    if gets kv "sb" == "g" then some { vote := vote, signers := sg, sig := none }
    else
      match parseNatList? (gets kv "sb"), parsePayload (gets kv "spl") with
      | some sb, some spl =>
        -- the harness skips signer indices outside the table when producing the aggregate; such an
        -- aggregate is still a token over the list it was asked for
        some { vote := vote, signers := sg, sig := some (sb, spl) }
      | _, _ => none
  | _, _, _, _, _, _ => none

def showValue : Option (List Nat) → String
  | none => "_"
  | some [] => "e"
  | some l => ".".intercalate (l.map toString)

structure DSt where
  st : St := {}

def describe (i : Inst) (d : Decision) : String :=
  s!"instance {i.id} (base head {i.baseHead}, scaled powers {i.scaled}, total {i.total}): decision inst={d.vote.inst} phase={d.vote.phase} round={d.vote.round} value={showValue d.vote.value} signers={d.signers} (power {signerPower i.scaled d.signers}) aggregate={if d.sig == some (d.signers, d.vote) then "verifies" else "does-not-verify"}"

/-- compare the implementation's verdict on one decision with model and specification -/
def judge (i? : Option Inst) (d : Decision) (implKind : String) (what : String) : Verdict :=
  if implKind == "panic" then
    -- a panic aborts the run: the decision was not accepted; only possible for absurd signer indices
    if d.signers.any (fun s => decide (s ≥ 2 ^ 31)) then .ok (what ++ "_panic_hugeidx") else .diff "panic"
  else
  let sound := match i? with
    | some i => Spec.SimOracle.decisionSoundB i d
    | none => false
  let model := match i? with
    | some i => validateDecision i d
    | none => .noInstance
  if implKind == "ok" && !sound then
    match i? with
    | some i => .oracle s!"SIM-ORACLE-UNSOUND {what} accepted an unsound decision ({model.name}) — {describe i d}"
    | none => .oracle s!"SIM-ORACLE-UNSOUND {what} accepted a decision for non-existing instance {d.vote.inst}"
  else if implKind == model.name then .ok (what ++ "_" ++ model.name)
  else .diff s!"{what}: implementation says {implKind}, model says {model.name}"

def step (ds : DSt) (line : String) : DSt × Driver.Verdict :=
  match splitWs line with
  | "ec" :: "new" :: _ => ({ st := {} }, .skip)
  | "ec" :: "begin" :: rest =>
    let kv := parseKV rest
    match getn kv "id", parseDots (gets kv "base"), parseNatList? (gets kv "ids"), parseNatList? (gets kv "scaled") with
    | some id, some base, some ids, some scaled =>
      if id != ds.st.insts.length then (ds, .diff s!"instance id {id}, model expects {ds.st.insts.length}")
      else
        let i : Inst := { id := id, base := base, ids := ids, scaled := scaled }
        ({ st := { ds.st with insts := ds.st.insts ++ [i] } }, .ok "ec_begin")
    | _, _, _, _ => (ds, .bad "parse begin")
  | "ec" :: "notify" :: rest =>
    let kv := parseKV rest
    match getn kv "p", parseDecision kv, getn kv "errs", getn kv "errnil" with
    | some p, some d, some errs, some errnil =>
      let s' := notify ds.st p d
      let implKind := gets kv "kind"
      let v := judge (ds.st.insts[d.vote.inst]?) d implKind "notify"
      -- the error counter and Err() must move with the verdict; on an oracle failure follow the
      -- implementation so that later lines stay comparable
      let s'' := { s' with errs := errs }
      match v with
      | .ok tag =>
        if errs != s'.errs then ({ st := s'' }, .diff s!"error count {errs}, model {s'.errs}")
        else if (errnil == 1) != (errs == 0) then ({ st := s'' }, .oracle s!"SIM-ORACLE-UNSOUND Err() is nil={errnil} with {errs} recorded errors")
        else ({ st := s'' }, .ok tag)
      | other => ({ st := s'' }, other)
    | _, _, _, _ => (ds, .bad "parse notify")
  | "ec" :: "query" :: rest =>
    let kv := parseKV (rest.filter (· != "=>"))
    match getn kv "inst", parseNatList? (gets kv "excl"), getn kv "completed" with
    | some k, some excl, some comp =>
      match ds.st.insts[k]? with
      | none => (ds, .bad "query of unknown instance")
      | some i =>
        let mc := hasCompleted ds.st.notes i excl
        let mr := reachedConsensus ds.st.notes i excl
        let ms := match mr with
          | none => "none"
          | some v => showValue v
        -- the property on the implementation's own answer, before any comparison with the model: a reported
        -- consensus value must be the recorded value of every non-excluded member (nil ≡ empty)
        let implC := gets kv "consensus"
        let norm := fun (x : String) => if x == "_" then "e" else x
        let implDisagrees := implC != "none" && ds.st.errs == 0 &&
          (participants i excl).any fun p =>
            match latest ds.st.notes i.id p with
            | some d => norm (showValue d.vote.value) != norm implC
            | none => true
        if implDisagrees then
          (ds, .oracle s!"SIM-ORACLE-UNSOUND HasReachedConsensus reported {implC} for instance {k} although the recorded decisions of the participants differ")
        else if mc != (comp == 1) then (ds, .diff s!"HasCompleted={comp}, model {mc}")
        else if ms != gets kv "consensus" then (ds, .diff s!"HasReachedConsensus={gets kv "consensus"}, model {ms}")
        else
          -- executable agreement statement: consensus reported ⇒ every non-excluded member's recorded
          -- value equals it (up to nil ≡ empty)
          let agree := match mr with
            | none => true
            | some v => (participants i excl).all fun p =>
                match latest ds.st.notes i.id p with
                | some d => (d.vote.value.getD []) == (v.getD [])
                | none => false
          -- (only where a run could get as far as the consensus check: no recorded error)
          if ds.st.errs == 0 && !agree then (ds, .oracle s!"SIM-ORACLE-UNSOUND HasReachedConsensus reported {gets kv "consensus"} for instance {k} although recorded decisions differ")
          else (ds, .ok ((if ds.st.errs == 0 then "query_clean_" else "query_") ++
            (if ms == "none" then (if mc then "complete_disagree" else "incomplete") else "consensus")))
    | _, _, _ => (ds, .bad "parse query")
  | "vd" :: rest =>
    let kv := parseKV (rest.filter (· != "=>"))
    match getn kv "inst", parseDecision kv with
    | some k, some d =>
      match ds.st.insts[k]? with
      | none => (ds, .bad "vd of unknown instance")
      | some i => (ds, judge (some i) d (rest.getLast?.getD "") "validate")
    | _, _ => (ds, .bad "parse vd")
  | "run" :: rest =>
    let kv := parseKV (rest.filter (· != "=>"))
    let res := rest.getLast?.getD ""
    let erred := res.startsWith "err" || res == "panic"
    let kind := gets kv "kind"
    match getn kv "honest", getn kv "target", getn kv "injected" with
    | some honest, some target, some injected =>
      if injected == 0 then
        (ds, if erred then .diff s!"Run failed without any forged decision: {res}" else .ok "run_clean")
      else if kind == "disagree" then
        if decide (honest ≥ 2) then
          (ds, if erred then .ok ("run_disagree_" ++ res)
               else .oracle s!"SIM-ORACLE-UNSOUND honest participant {gets kv "victim"} was recorded with value {gets kv "val"} while its peers decided {gets kv "own"} in instance {target}, yet Run returned no error")
        else (ds, .ok "run_disagree_single_honest")
      else
        match parseDecision kv, parseDots (gets kv "base"), parseNatList? (gets kv "ids"), parseNatList? (gets kv "scaled") with
        | some d, some base, some ids, some scaled =>
          let i : Inst := { id := target, base := base, ids := ids, scaled := scaled }
          let i? := if d.vote.inst == target then some i else none
          let sound := match i? with
            | some i => Spec.SimOracle.decisionSoundB i d
            | none => false
          if !sound then
            (ds, if erred then .ok ("run_forged_" ++ res)
                 else .oracle s!"SIM-ORACLE-UNSOUND Run returned no error although Host.ReceiveDecision was given an unsound decision ({(match i? with | some i => validateDecision i d | none => Verdict.noInstance).name}) — {describe i d}")
          else (ds, if erred then .diff s!"Run failed ({res}) on a sound decision" else .ok "run_sound_accepted")
        | _, _, _, _ => (ds, .bad "parse run decision")
    | _, _, _ => (ds, .bad "parse run")
  | _ => (ds, .bad "unknown op")

end Driver.Sim

def main : IO UInt32 := Driver.runArea Driver.Sim.step {}
