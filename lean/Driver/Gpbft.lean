import Driver.Util
import F3.Model.Participant
import F3.Model.MultiParticipant
import F3.Model.Valid
import F3.Model.Power
/-! Driver for area `gpbft` (C01, C02, C03, C06, C07): replays every honest participant's op trace through
`F3.Instance.step`, compares effects/progress/return class, and evaluates the property oracles on the
implementation's own observations (independently of the model). -/
namespace Driver.Gpbft
open Driver F3 F3.Instance

/-! ### parsing -/

def parseChain? (s : String) : Option Chain :=
  if s = "_" then some [] else (s.splitOn ".").mapM (·.toNat?)

def phaseOfNat? : Nat → Option Phase
  | 0 => some .initial | 1 => some .quality | 2 => some .converge | 3 => some .prepare
  | 4 => some .commit | 5 => some .decide | 6 => some .terminated | _ => none

def parseJust? (s : String) : Option (Option Just) :=
  if s = "-" then some none else
  match s.splitOn "/" with
  | [r, ph, c, sg] => do
    let r ← r.toNat?
    let ph ← (← ph.toNat?) |> phaseOfNat?
    let c ← parseChain? c
    let sg ← if sg = "none" then some [] else (sg.splitOn "+").mapM (·.toNat?)
    some (some { round := r, phase := ph, value := c, signers := sg })
  | _ => none

def chainStr (c : Chain) : String := if c.isEmpty then "_" else ".".intercalate (c.map toString)
def justStr : Option Just → String
  | none => "-"
  | some j => s!"{j.round}/{j.phase.toNat}/{chainStr j.value}/" ++
      (if j.signers.isEmpty then "none" else "+".intercalate (j.signers.map toString))

def effStr : Eff → Option String
  | .broadcast r ph v t j => some s!"B,{r},{ph.toNat},{chainStr v},{if t then 1 else 0},{justStr j}"
  | .rebroadcast r ph => some s!"R,{r},{ph.toNat}"
  | .setAlarm t => some s!"A,{t}"
  | .progress _ _ => none
  | .err _ => none
  | .panic _ => none

def retOf (es : List Eff) : String :=
  match es.find? (fun e => match e with | .err _ => true | .panic _ => true | _ => false) with
  | some (.err .wrongBase) => "late:wrongBase"
  | some (.err .wrongSupp) => "late:wrongSupp"
  | some (.err _) => "err:internal"
  | some (.panic _) => "panic"
  | _ => "ok"

def nextStartAlarm : Int := 2305843009213693951

/-! ### independent observation state for the oracles -/

structure Obs where
  input : Chain := []
  power : Nat := 0
  /-- slots this node has broadcast: (round, phase) -/
  sentSlots : List (Nat × Nat) := []
  lastProg : Nat × Nat × Nat := (0, 0, 0)
  /-- first delivered vote per (phase, round, sender): value -/
  votes : List (Nat × Nat × Pid × Chain) := []
  /-- values for which a justification (any phase) was delivered -/
  justVals : List Chain := []
  /-- values for which a PREPARE-quorum justification was delivered (the evidence that allows a sway) -/
  prepJustVals : List (Nat × Chain) := []
  /-- delivered CONVERGE values per round with rank -/
  conv : List (Nat × Chain × Nat) := []
  /-- own broadcasts: (round, phase, value) -/
  own : List (Nat × Nat × Chain) := []
  /-- phase timeout set when PREPARE of a round began: round ↦ time -/
  prepTimeout : List (Nat × Int) := []
  decided : Option Just := none
  decidedAtRound : Nat := 0
  faulty : Bool := false
  started : Bool := false
  /-- justification tokens delivered to this node (candidates for being forwarded verbatim) -/
  justSeen : List String := []
  /-- (sender, round, phase) slots occupied in the pre-start queue -/
  preSlots : List (Pid × Nat × Nat) := []
  /-- consecutive-instance runs: the instance this (virtual) node stands for -/
  inst : Nat := 0
  /-- messages queued for this instance before its proposal was known (kind `Q`): recorded as delivered votes
  once the input — hence the late-binding base check — is known -/
  pendingQ : List Msg := []

/-- What is kept about a node whose pre-start queue held messages of several senders: which drain order the
real participant used is Go map order and may only show later (e.g. which of two justifications for one value
was stored first), so the untried orders stay available for backtracking. -/
structure DrainHist where
  pre : PState
  beginOp : POp
  beginToks : List String
  untried : List (List Pid)
  /-- the calls since the instance began, with what the implementation did and the instance-switch alarm -/
  ops : List (POp × List String × Int) := []

structure St where
  /-- how often the run's adversary acted (`byz=` of the `end` line); 0 = no Byzantine message was ever sent -/
  byzActs : Nat := 1
  tbl : Table := { entries := [] }
  cfg : Cfg := default
  models : List (Pid × PState) := []
  obs : List (Pid × Obs) := []
  mode : String := ""
  runNo : Nat := 0
  /-- consecutive instances of the run and the delay between a decision and the start of the next instance -/
  K : Nat := 1
  gap : Int := 0
  /-- consecutive-instance runs: the multi-instance participant model (`F3.Model.MultiParticipant`), one per real
  participant, replayed beside the per-instance virtual nodes -/
  mstates : List (Pid × MState) := []
  drainHist : List (Pid × DrainHist) := []
  /-- proposal of the instance a participant is about to begin (from the `node` line that precedes the alarm) -/
  pendingInput : List (Pid × Chain) := []
  /-- (gst, delta) are read from the `end` line -/
  pendingUndecided : List (Pid × Nat × Nat) := []

def getKV (toks : List String) (k : String) : Option String :=
  (toks.find? (·.startsWith (k ++ "="))).map (fun t => (t.drop (k.length + 1)).toString)

def lookup {α} (l : List (Pid × α)) (p : Pid) : Option α := (l.find? (·.1 == p)).map (·.2)
def update {α} (l : List (Pid × α)) (p : Pid) (a : α) : List (Pid × α) :=
  if l.any (·.1 == p) then l.map (fun e => if e.1 == p then (p, a) else e) else l ++ [(p, a)]

def isPrefixOf (a b : Chain) : Bool := a.length ≤ b.length && b.take a.length == a

/-- power of the distinct senders that voted `v` (exactly) in `(ph, r)` among delivered votes -/
def Obs.supportFor (o : Obs) (t : Table) (ph r : Nat) (v : Chain) : Nat :=
  ((o.votes.filter (fun e => e.1 == ph && e.2.1 == r && e.2.2.2 == v)).map (fun e => t.power e.2.2.1)).foldl (· + ·) 0

/-- QUALITY support of a prefix: senders whose QUALITY value extends it -/
def Obs.qualitySupport (o : Obs) (t : Table) (v : Chain) : Nat :=
  ((o.votes.filter (fun e => e.1 == 1 && isPrefixOf v e.2.2.2)).map (fun e => t.power e.2.2.1)).foldl (· + ·) 0

def Obs.votedPower (o : Obs) (t : Table) (ph r : Nat) : Nat :=
  ((o.votes.filter (fun e => e.1 == ph && e.2.1 == r)).map (fun e => t.power e.2.2.1)).foldl (· + ·) 0

def strongOf (t : Table) (p : Nat) : Bool := decide (3 * p ≥ 2 * t.total)

/-- longest prefix of the input (length ≥ 2) with a strong QUALITY quorum, else the base -/
def Obs.expectedPrepare0 (o : Obs) (t : Table) : Chain :=
  match ((List.range (o.input.length + 1)).reverse.filter (· ≥ 2)).find? (fun l => strongOf t (o.qualitySupport t (o.input.take l))) with
  | some l => o.input.take l
  | none => o.input.take 1

/-- a value has "proof of a strong quorum" in what was delivered -/
def Obs.backed (o : Obs) (t : Table) (v : Chain) : Bool :=
  isPrefixOf v o.input || o.justVals.contains v ||
  o.votes.any (fun e => (e.1 == 3 || e.1 == 4 || e.1 == 5) && e.2.2.2 == v && strongOf t (o.supportFor t e.1 e.2.1 v))

/-- oracle checks at the moment a broadcast effect is observed; returns failure messages -/
def checkBroadcast (t : Table) (o : Obs) (now : Int) (r ph : Nat) (v : Chain) : List String :=
  let dup := if o.sentSlots.contains (r, ph) then [s!"C07-duplicate-slot round={r} phase={ph}"] else []
  let prep0 := if ph == 3 && r == 0 && v != o.expectedPrepare0 t then
      [s!"C07-prepare0-not-longest-quality-prefix got={chainStr v} want={chainStr (o.expectedPrepare0 t)}"] else []
  let ownPrep := (o.own.find? (fun e => e.1 == r && e.2.1 == 3)).map (·.2.2)
  let commitBot := if ph == 4 && v.isEmpty then
      match ownPrep with
      | some pv =>
        let sup := o.supportFor t 3 r pv
        let voted := o.votedPower t 3 r
        let hasQ := strongOf t sup
        let impossible := !(strongOf t (sup + (t.total - voted)))
        let timedOut := match lookup o.prepTimeout r with | some tt => decide (now ≥ tt) | none => true
        (if hasQ then [s!"C07-commit-bottom-with-prepare-quorum round={r}"] else []) ++
        (if !timedOut && !impossible then [s!"C07-commit-bottom-before-timeout round={r}"] else [])
      | none => []
    else []
  let backed := if (ph == 2 || ph == 3 || ph == 4 || ph == 5) && !v.isEmpty && !o.backed t v then
      [s!"C07-vote-not-backed round={r} phase={ph} value={chainStr v}"] else []
  -- later rounds: adopt the best-ticket CONVERGE value whenever it is a prefix of the QUALITY proposal
  let adopt := if ph == 3 && r > 0 then
      let qprop := (o.own.find? (fun e => e.1 == 0 && e.2.1 == 3)).map (·.2.2)
      let cands := o.conv.filter (·.1 == r)
      match qprop, cands with
      | some qp, c :: cs =>
        let best := cs.foldl (fun b x => if x.2.2 < b.2.2 then x else b) c
        let uniqueBest := (cands.filter (fun x => x.2.2 == best.2.2 && x.2.1 != best.2.1)).isEmpty
        if uniqueBest && isPrefixOf best.2.1 qp && v != best.2.1 then
          [s!"C07-converge-best-ticket-prefix-not-adopted round={r} best={chainStr best.2.1} qualityProposal={chainStr qp} prepared={chainStr v}"]
        else []
      | _, _ => []
    else []
  dup ++ prep0 ++ commitBot ++ backed ++ adopt

def phaseOrd (ph : Nat) : Nat := ph

def progLe (a b : Nat × Nat × Nat) : Bool :=
  a.1 < b.1 || (a.1 == b.1 && (a.2.1 < b.2.1 || (a.2.1 == b.2.1 && a.2.2 ≤ b.2.2)))

/-- equality of effect tokens: identical; or both broadcasts equal up to the signer list of a justification
that the implementation *forwarded* (its token was delivered to this node earlier — Go map order decides
which stored justification is forwarded). Justifications the participant builds itself must match exactly. -/
def effEq (seen : List String) (a b : String) : Bool :=
  a == b ||
  (a.startsWith "B," && b.startsWith "B," &&
    let pa := a.splitOn "/"; let pb := b.splitOn "/"
    pa.length == 4 && pb.length == 4 && pa.take 3 == pb.take 3 &&
    -- b is the implementation's token: its justification part must have been delivered before
    (match (b.splitOn ",").getLast? with
     | some j => seen.contains j
     | none => false))

/-- a delivered (tallied) vote enters the independent observation state -/
def Obs.recordVote (o : Obs) (mg : Msg) : Obs :=
  let phN := mg.phase.toNat
  let already := o.votes.any (fun e => e.1 == phN && e.2.1 == mg.round && e.2.2.1 == mg.sender)
  { o with
    votes := if already then o.votes else o.votes ++ [(phN, mg.round, mg.sender, mg.value)]
    justVals := match mg.just with | some j => if o.justVals.contains j.value then o.justVals else o.justVals ++ [j.value] | none => o.justVals
    prepJustVals := match mg.just with
      | some j => if j.phase == .prepare && !o.prepJustVals.contains (j.round, j.value) then o.prepJustVals ++ [(j.round, j.value)] else o.prepJustVals
      | none => o.prepJustVals
    conv := if phN == 2 && !(o.conv.any (fun e => e.1 == mg.round && e.2.1 == mg.value && e.2.2 ≤ mg.rank)) && !already
            then o.conv ++ [(mg.round, mg.value, mg.rank)] else o.conv }

/-- all permutations (small lists only) -/
def perms : List Pid → List (List Pid)
  | [] => [[]]
  | x :: xs => (perms xs).flatMap (fun p => (List.range (p.length + 1)).map (fun i => p.take i ++ [x] ++ p.drop i))

/-- Go map order at the end of COMMIT (`ListAllValues`, first non-bottom value): the model's association list
is in insertion order; every rotation that puts another non-bottom committed value first is an equally
admissible iteration order of the Go map. -/
def mapOrderVariants (s : State) (incoming : Option Msg := none) : List State :=
  let rs := s.getRound s.round
  -- a COMMIT for a value not tallied yet lands somewhere in the Go map: give it a (power-less) slot first
  let sup0 := rs.committed.support
  let sup : List Support := match incoming with
    | some mg =>
      if mg.phase == Phase.commit && mg.round == s.round && !mg.value.isEmpty && !(sup0.any (·.chain == mg.value))
      then sup0 ++ [({ chain := mg.value, power := 0, signers := [], strong := false } : Support)] else sup0
    | none => sup0
  (List.range sup.length).filterMap (fun i =>
    match sup[i]? with
    | some sp =>
      if (i == 0 && sup.length == sup0.length) || sp.chain.isEmpty then none
      else some (s.setRound s.round { rs with committed := { rs.committed with support := sp :: (sup.take i ++ sup.drop (i + 1)) } })
    | none => none)

def parseMsg? (detail : String) : Option (Msg × Nat) :=
  match detail.splitOn "," with
  | sd :: r :: ph :: c :: rk :: j :: sp :: rest => do
    let sd ← sd.toNat?; let r ← r.toNat?; let ph ← (← ph.toNat?) |> phaseOfNat?
    let c ← parseChain? c; let rk ← rk.toNat?; let j ← parseJust? j; let sp ← sp.toNat?
    let inst := (rest.head?.bind (·.toNat?)).getD 0
    some ({ sender := sd, round := r, phase := ph, value := c, rank := rk, just := j, suppOk := sp == 1 }, inst)
  | _ => none

/-- kind `Q`: `ReceiveMessage` for an instance the participant has not reached yet — `messageQueue.Add` for that
instance, nothing observable. The virtual node of that instance may not exist yet (its proposal is unknown). -/
def processQueued (st : St) (vid : Pid) (now : Int) (detail effsS retS : String) : St × Verdict :=
  match parseMsg? detail with
  | none => (st, .bad "cannot parse queued op")
  | some (mg, inst) =>
    let m : PState := (lookup st.models vid).getD { inst := init st.cfg st.tbl [] }
    let o : Obs := (lookup st.obs vid).getD { inst := inst }
    let (m', effs) := pstep m (.recv now mg)
    let slot := (mg.sender, mg.round, mg.phase.toNat)
    let o' := if o.preSlots.contains slot then o
      else { o with preSlots := o.preSlots ++ [slot], pendingQ := o.pendingQ ++ [mg] }
    let st' := { st with models := update st.models vid m', obs := update st.obs vid o' }
    if m.started then (st', .diff s!"node={vid} a message was queued for an instance that has already begun")
    else if effsS != "-" || !effs.isEmpty then (st', .diff s!"node={vid} queueing a message for a later instance had effects: {effsS}")
    else if retS != "ok" then (st', .diff s!"node={vid} queueing a message for a later instance returned {retS}")
    else (st', .ok "recv_future_queued")

/-- kind `P`: `ReceiveMessage` for an instance the participant has finished — dropped, nothing observable -/
def processPast (st : St) (vid : Pid) (effsS retS : String) : St × Verdict :=
  if effsS != "-" then (st, .diff s!"node={vid} a message of a finished instance had effects: {effsS}")
  else if retS != "ok" then (st, .diff s!"node={vid} a message of a finished instance returned {retS}")
  else (st, .ok "recv_past_dropped")

def decToks (m m' : PState) (nextAlarm : Int) : List String :=
  if m.inst.termination.isNone then
    match m'.inst.termination with
    | some d => ["D," ++ justStr (some d), s!"A,{nextAlarm}"]
    | none => []
  else []

def toksAgree (seenJ : List String) (t impl : List String) : Bool :=
  t.length == impl.length && (t.zip impl).all (fun (a, b) => effEq seenJ a b)

/-- replay a node from before its instance began with another drain order; `some` final state iff every call
reproduces what the implementation did -/
def replayWith (seenJ : List String) (h : DrainHist) (order : List Pid) : Option PState :=
  let r0 := pstepWith order h.pre h.beginOp
  if !toksAgree seenJ (r0.2.filterMap effStr ++ decToks h.pre r0.1 nextStartAlarm) h.beginToks then none
  else
    h.ops.foldl (fun (acc : Option PState) (e : POp × List String × Int) =>
      match acc with
      | none => none
      | some m =>
        let r := pstep m e.1
        if toksAgree seenJ (r.2.filterMap effStr ++ decToks m r.1 e.2.2) e.2.1 then some r.1 else none) (some r0.1)

def processOp (st : St) (pid : Pid) (kind : String) (now : Int) (detail effsS progS retS : String) : St × Verdict :=
  match lookup st.models pid, lookup st.obs pid with
  | some m, some o =>
    -- parse the op
    let opM : Option (POp × Option Msg) :=
      match kind with
      | "A" => some (.alarm now, none)
      | "M" =>
        match detail.splitOn "," with
        | sd :: r :: ph :: c :: rk :: j :: sp :: _ => do
          let sd ← sd.toNat?; let r ← r.toNat?; let ph ← (← ph.toNat?) |> phaseOfNat?
          let c ← parseChain? c; let rk ← rk.toNat?; let j ← parseJust? j; let sp ← sp.toNat?
          let msg : Msg := { sender := sd, round := r, phase := ph, value := c, rank := rk, just := j, suppOk := sp == 1 }
          some (.recv now msg, some msg)
        | _ => none
      | _ => none
    match opM with
    | none => (st, .bad "cannot parse op")
    | some (op, msg?) =>
      let seenJ : List String := match msg? with
        | some mg => (match mg.just with | some j => justStr (some j) :: o.justSeen | none => o.justSeen)
        | none => o.justSeen
      let implToks0 := if effsS = "-" then [] else splitWs effsS
      -- the host answers a decision with the start time of the next instance (an input of the participant)
      let nextAlarm : Int := if o.inst + 1 < st.K then now + st.gap else nextStartAlarm
      let tokensOf := fun (m' : PState) (effs : List Eff) =>
        effs.filterMap effStr ++
          (if m.inst.termination.isNone then
            match m'.inst.termination with
            | some d => ["D," ++ justStr (some d), s!"A,{nextAlarm}"]
            | none => []
          else [])
      let agrees := fun (r : PState × List Eff) =>
        let t := tokensOf r.1 r.2
        t.length == implToks0.length && (t.zip implToks0).all (fun (a, b) => effEq seenJ a b)
      -- the queue drain order is Go map order: when the default order does not reproduce the observed
      -- effects, search the sender permutations (bounded) for one that does
      let mOrig := m
      let (m, (m', effs)) : PState × (PState × List Eff) :=
        let r0 := pstep m op
        if agrees r0 then (m, r0)
        else if m.started then
          -- Go map order among several non-bottom COMMIT values (only reachable with ≥ 1/3 of the power
          -- equivocating, i.e. in script mode): accept the implementation's choice if some order yields it
          match (mapOrderVariants m.inst msg?).find? (fun v => agrees (pstep { m with inst := v } op)) with
          | some v => (m, pstep { m with inst := v } op)
          | none =>
            -- the drain order of the pre-start queue (Go map order) may only show now: backtrack over the
            -- orders not tried yet, replaying every call since the instance began
            match lookup st.drainHist pid with
            | none => (m, r0)
            | some h =>
              match h.untried.findSome? (fun ord =>
                  match replayWith seenJ h ord with
                  | some mm => if agrees (pstep mm op) then some mm else none
                  | none => none) with
              | some mm => (mm, pstep mm op)
              | none => (m, r0)
        else if (sendersOf m.queue).length ≤ 1 then (m, r0)
        else
          let ss := sendersOf m.queue
          let cands := if ss.length ≤ 6 then perms ss else (List.range ss.length).map (fun i => ss.drop i ++ ss.take i) ++ [ss.reverse]
          match cands.find? (fun o => agrees (pstepWith o m op)) with
          | some o => (m, pstepWith o m op)
          | none => (m, r0)
      -- model tokens
      let decTok : List String :=
        if m.inst.termination.isNone then
          match m'.inst.termination with
          | some d => ["D," ++ justStr (some d), s!"A,{nextAlarm}"]
          | none => []
        else []
      let modelToks := effs.filterMap effStr ++ decTok
      let implToks := if effsS = "-" then [] else splitWs effsS
      let modelRet := retOf effs
      let implRet := if retS.startsWith "err:internal" then "err:internal" else if retS.startsWith "panic" then "panic" else retS
      -- observation update (independent of the model): delivered message first
      let o : Obs := { o with justSeen := if seenJ.length > 400 then seenJ.take 400 else seenJ }
      let o1 : Obs := match msg? with
        | some mg =>
          let phN := mg.phase.toNat
          let lateRejected := retS.startsWith "late:" || !mg.suppOk ||
            !(mg.value.isEmpty || mg.value.head? == o.input.head?)
          -- before the instance begins the participant queues one message per (sender, round, phase)
          let preDup := !o.started && o.preSlots.contains (mg.sender, mg.round, phN)
          let o := if o.started then o else { o with preSlots := o.preSlots ++ [(mg.sender, mg.round, phN)] }
          if lateRejected || preDup then o else o.recordVote mg
        | none => { o with started := true }
      -- walk the implementation's effects
      let walk := implToks.foldl (fun (acc : Obs × List String × Option Int) tok =>
        let (ob, fails, lastAlarm) := acc
        match tok.splitOn "," with
        | ["B", r, ph, c, _, _] =>
          match r.toNat?, ph.toNat?, parseChain? c with
          | some r, some ph, some c =>
            let f := checkBroadcast st.tbl ob now r ph c
            let ob' := { ob with sentSlots := ob.sentSlots ++ [(r, ph)], own := ob.own ++ [(r, ph, c)],
                                 prepTimeout := if ph == 3 then match lastAlarm with | some t => update ob.prepTimeout r t | none => ob.prepTimeout else ob.prepTimeout }
            (ob', fails ++ f, lastAlarm)
          | _, _, _ => (ob, fails ++ ["unparseable broadcast"], lastAlarm)
        | ["A", t] => (ob, fails, t.toInt?)
        | ["D", j] =>
          match parseJust? j with
          | some (some jj) => ({ ob with decided := some jj }, fails, lastAlarm)
          | _ => (ob, fails ++ ["unparseable decision"], lastAlarm)
        | ["X", what] => (ob, fails ++ [s!"C07-host-anomaly {what}"], lastAlarm)
        | _ => (ob, fails, lastAlarm)) (o1, [], none)
      let (o2, fails, _) := walk
      -- progress
      let prog : Option (Nat × Nat × Nat) := match progS.splitOn "," with
        | [a, b, c] => do some ((← a.toNat?), (← b.toNat?), (← c.toNat?))
        | _ => none
      match prog with
      | none => (st, .bad "cannot parse progress")
      | some pg =>
        let fails := fails ++ (if progLe o2.lastProg pg then [] else [s!"C07-progress-went-backwards {o2.lastProg} -> {pg}"])
        let fails := fails ++ (if implRet == "err:internal" || implRet == "panic" then [s!"C07-internal-error-or-panic {retS}"] else [])
        -- the hypothesis of the end-to-end theorems (C01.agreement_model, C02.validity_model) about delivered
        -- messages, as far as it can be seen on one message: shape, justification shape, strong signer set
        let fails := fails ++ (match msg? with
          | some mg => if msgStructB st.tbl mg then [] else [s!"C01-C02-C03-delivered-message-violates-MsgValid {detail}"]
          | none => [])
        let o3 := { o2 with lastProg := pg, decidedAtRound := if o2.decided.isSome && o.decided.isNone then pg.2.1 else o2.decidedAtRound }
        -- drain-order history for later backtracking (only nodes whose queue held several senders)
        let dh : List (Pid × DrainHist) :=
          if !mOrig.started then
            match op with
            | .alarm _ =>
              let ss := sendersOf mOrig.queue
              if ss.length ≥ 2 then
                let cands := if ss.length ≤ 5 then perms ss else (List.range ss.length).map (fun i => ss.drop i ++ ss.take i) ++ [ss.reverse]
                update st.drainHist pid { pre := mOrig, beginOp := op, beginToks := implToks, untried := cands }
              else st.drainHist
            | _ => st.drainHist
          else
            match lookup st.drainHist pid with
            | some h =>
              if h.ops.length ≥ 500 || m'.inst.termination.isSome then st.drainHist.filter (·.1 != pid)
              else update st.drainHist pid { h with ops := h.ops ++ [(op, implToks, nextAlarm)] }
            | none => st.drainHist
        let st' := { st with models := update st.models pid m', obs := update st.obs pid o3, drainHist := dh }
        let modelProg : Nat × Nat × Nat :=
          if m'.inst.termination.isSome then (o.inst + 1, 0, 0) else (o.inst, m'.inst.round, m'.inst.phase.toNat)
        let toksOk := modelToks.length == implToks.length && (modelToks.zip implToks).all (fun (a, b) => effEq seenJ a b)
        if !fails.isEmpty then
          -- an oracle of one property fails on this call; if model and implementation differ on it as well, say
          -- so in the same message (checks of the sibling properties of this harness read the ALSO-DIFF part)
          let also := if !toksOk then s!" ;; ALSO-DIFF effects: model=[{" ".intercalate modelToks}]"
            else if modelRet != implRet then s!" ;; ALSO-DIFF ret: model={modelRet} impl={implRet}"
            else if modelProg != pg then s!" ;; ALSO-DIFF progress: model={modelProg} impl={pg}" else ""
          (st', .oracle (s!"node={pid} " ++ "; ".intercalate fails ++ also))
        else
          -- correspondence
          if !toksOk then (st', .diff s!"node={pid} effects: model=[{" ".intercalate modelToks}]")
          else if modelRet != implRet then (st', .diff s!"node={pid} ret: model={modelRet} impl={implRet}")
          else if modelProg != pg then (st', .diff s!"node={pid} progress: model={modelProg} impl={pg}")
          else
            let tag := match op with
              | .alarm _ => s!"alarm_ph{m.inst.phase.toNat}" ++ (if effs.isEmpty then "_noop" else "")
              | .recv _ mg => s!"recv_ph{mg.phase.toNat}" ++ (if implRet != "ok" then "_" ++ implRet else if effs.isEmpty then "_noeff" else "_eff")
            (st', .ok tag)
  | _, _ => (st, .bad s!"unknown node {pid}")

/-- Diagnosis of a run that did not decide after stabilisation: is it the protocol-level stall recorded as a
known finding? Some honest member `m` is needed for every strong quorum of honest members (the honest power
without it is below two thirds), the other honest members stand on a proposal `V` that `m` can never adopt — `V` is
not a prefix of `m`'s input and `m` was never handed evidence of a PREPARE quorum for it (neither the votes nor a
justification) — and `m` stands on something else. Every round then ends in COMMIT for bottom, and only the
CONVERGE lottery can resolve it, which `m` wins with probability ≈ its share of the power. -/
def stallDiagnosis (st : St) (honest : List (Pid × Obs)) : Option String :=
  let lastProp := fun (o : Obs) => ((o.own.filter (fun e => e.2.1 == 3)).getLast?).map (·.2.2)
  let lastRound := fun (o : Obs) => (((o.own.filter (fun e => e.2.1 == 3)).getLast?).map (·.1)).getD 0
  let hp := (honest.map (·.2.power)).foldl (· + ·) 0
  honest.findSome? (fun (e : Pid × Obs) =>
    let mo := e.2
    let recent := fun (r : Nat) => decide (r + 3 ≥ lastRound mo)
    if strongOf st.tbl (hp - mo.power) then none else
    honest.findSome? (fun (f : Pid × Obs) =>
      match lastProp f.2 with
      | some v =>
        -- evidence of a PREPARE quorum for `v` in the last rounds would have let `m` sway
        let seenQuorum := mo.votes.any (fun x => x.1 == 3 && x.2.2.2 == v && recent x.2.1 && strongOf st.tbl (mo.supportFor st.tbl 3 x.2.1 v))
        let seenJust := mo.prepJustVals.any (fun x => x.2 == v && recent x.1)
        if f.1 != e.1 && lastProp mo != some v && !v.isEmpty && !isPrefixOf v mo.input && !seenJust && !seenQuorum
            && lastRound mo ≥ 3 then
          some s!"member={e.1} power={mo.power} input={chainStr mo.input} stands on {chainStr ((lastProp mo).getD [])}; {f.1} stands on {chainStr v}; honest power {hp} of {st.tbl.total}"
        else none
      | none => none))

/-- cross-node oracles at the end of a run -/
def endRunOne (st : St) (gst delta : Int) (now : Int) (capped : Bool) (gstRound decRound : Int)
    (honest : List (Pid × Obs)) : Verdict :=
  let decs := honest.filterMap (fun e => e.2.decided.map (fun d => (e.1, d)))
  -- C01 agreement
  let agree := match decs with
    | [] => true
    | d :: ds => ds.all (fun x => x.2.value == d.2.value)
  if !agree then .oracle ("C01-disagreement " ++ "; ".intercalate (decs.map (fun d => s!"{d.1}:{chainStr d.2.value}")))
  else
    -- C02 validity
    let base := (honest.head?.map (·.2.input.take 1)).getD []
    let bad2 := decs.filter (fun d => d.2.value.isEmpty || d.2.value.take 1 != base ||
      !(honest.any (fun h => isPrefixOf d.2.value h.2.input)))
    -- (script mode: every other member is driven by the harness, no < 1/3 bound — validity is not expected)
    if st.mode != "script" && !bad2.isEmpty then .oracle ("C02-invalid-decision " ++ "; ".intercalate (bad2.map (fun d => s!"{d.1}:{chainStr d.2.value}")))
    else
      -- C03 justification shape
      let bad3 := decs.filter (fun d =>
        let sg := d.2.signers
        let incr := (sg.zip (sg.drop 1)).all (fun (a, b) => a < b)
        let pws := sg.map st.tbl.powerAt
        !(d.2.round == 0 && d.2.phase == .decide && incr && pws.all (· > 0) && sg.all (· < st.tbl.entries.length) &&
          strongOf st.tbl (pws.foldl (· + ·) 0)))
      if !bad3.isEmpty then .oracle ("C03-malformed-decision-justification " ++ "; ".intercalate (bad3.map (fun d => s!"{d.1}:{justStr (some d.2)}")))
      else
        -- C06 liveness (live / sync modes only): all honest decided; measured by the harness' deadline
        let live := st.mode == "sync" || st.mode == "live"
        if live && !capped && decs.length < honest.length then
          match stallDiagnosis st honest with
          | some d => .oracle s!"C06-stalled-quorum-needs-member-with-incompatible-input run={st.runNo} mode={st.mode} decided={decs.length}/{honest.length} {d}"
          | none => .oracle s!"C06-undecided-after-stabilisation run={st.runNo} mode={st.mode} decided={decs.length}/{honest.length} gst={gst} now={now} delta={delta}"
        else if live && !capped && decRound > max gstRound 0 + (if st.byzActs == 0 then 6 else 40) then
          .oracle s!"C06-round-bound-exceeded run={st.runNo} mode={st.mode} decided in round {decRound}, stabilised in round {gstRound}, bound +{if st.byzActs == 0 then 6 else 40} (adversary acted {st.byzActs} times)"
        else if st.mode == "sync" && !capped &&
            !(decs.all (fun d => honest.all (fun h => h.2.input == d.2.value))) then
          .oracle s!"C02-unanimous-synchronous-run-decided-another-chain run={st.runNo}"
        else if st.mode == "sync" && decRound > 0 && !capped then
          .oracle s!"C06-synchronous-run-needed-more-than-one-round run={st.runNo} decround={decRound}"
        else if live && capped then .ok s!"run_{st.mode}_capped"
        else .ok (s!"run_{st.mode}_" ++ (if decs.isEmpty then "nodecision" else if decs.length == honest.length then "alldecided" else "somedecided"))

/-- Consecutive-instance runs: the same call replayed through `mpstep` (queues per instance, drop of finished
instances, begin + drain, decision hand-off). Returns a difference message, if any. -/
def processMulti (st : St) (vid : Pid) (kind : String) (now : Int) (detail effsS progS : String) : St × Option String :=
  let rid := vid % 1000
  let ms : MState := (lookup st.mstates rid).getD { cfg := st.cfg }
  let implToks := if effsS = "-" then [] else splitWs effsS
  let seenJ : List String := ((lookup st.obs vid).map (·.justSeen)).getD []
  let toks := fun (s0 s1 : MState) (effs : List Eff) =>
    effs.filterMap effStr ++
      (if s1.decisions.length > s0.decisions.length then
        match s1.decisions.getLast? with
        | some (k, d) => ["D," ++ justStr (some d), s!"A,{if k + 1 < st.K then now + st.gap else nextStartAlarm}"]
        | none => []
       else [])
  let agrees := fun (s0 : MState) (r : MState × List Eff) =>
    let t := toks s0 r.1 r.2
    t.length == implToks.length && (t.zip implToks).all (fun (a, b) => effEq seenJ a b)
  let mop? : Option (List MPOp) :=
    match kind with
    | "A" =>
      if ms.active.isNone then
        let inp := (lookup st.pendingInput rid).getD []
        let ss := sendersOf (queueOf ms.queues ms.cur)
        let orders := if ss.length ≤ 1 then [[]] else if ss.length ≤ 6 then perms ss
          else (List.range ss.length).map (fun i => ss.drop i ++ ss.take i) ++ [ss.reverse]
        some (orders.map (fun o => MPOp.alarm now st.tbl inp o))
      else some [MPOp.alarm now st.tbl [] []]
    | _ =>
      match parseMsg? detail with
      | some (mg, inst) => some [MPOp.recv now { inst := inst, msg := mg }]
      | none => none
  match mop? with
  | none => (st, some "multi: cannot parse op")
  | some cands =>
    -- begin alarms: any drain order is admissible (Go map order); active instance: COMMIT-sway map order
    let variants : List (MState × MPOp) :=
      cands.map (fun c => (ms, c)) ++
      (match ms.active with
       | some p => (mapOrderVariants p.inst ((parseMsg? detail).map (·.1))).flatMap (fun v => cands.map (fun c => ({ ms with active := some { p with inst := v } }, c)))
       | none => [])
    let pick := match variants.find? (fun v => agrees v.1 (mpstep v.1 v.2)) with
      | some v => some v
      | none => variants.head?
    match pick with
    | none => (st, some "multi: no candidate op")
    | some (ms0, op) =>
      let r := mpstep ms0 op
      let st' := { st with mstates := update st.mstates rid r.1 }
      let t := toks ms0 r.1 r.2
      let prog : Option (Nat × Nat × Nat) := match progS.splitOn "," with
        | [a, b, c] => do some ((← a.toNat?), (← b.toNat?), (← c.toNat?))
        | _ => none
      let mprog : Nat × Nat × Nat := match r.1.active with
        | some p => (r.1.cur, p.inst.round, p.inst.phase.toNat)
        | none => (r.1.cur, 0, 0)
      if !agrees ms0 r then (st', some s!"multi-instance model: effects [{" ".intercalate t}]")
      else if prog != some mprog then (st', some s!"multi-instance model: progress {mprog}")
      else (st', none)

/-- the cross-node oracles, instance by instance (consecutive-instance runs have one virtual node per
participant and instance) -/
def endRun (st : St) (gst delta : Int) (now : Int) (capped : Bool) (gstRound decRound : Int) : Verdict :=
  let honest := st.obs.filter (fun e => !e.2.faulty)
  if st.K ≤ 1 then endRunOne st gst delta now capped gstRound decRound honest
  else
    let vs := (List.range st.K).map (fun k => endRunOne st gst delta now capped gstRound decRound (honest.filter (·.2.inst == k)))
    match vs.find? (fun v => match v with | .oracle _ => true | _ => false) with
    | some v => v
    | none =>
      let decided := (honest.filter (·.2.decided.isSome)).length
      if !capped && decided < honest.length then
        .oracle s!"C06-undecided-in-lossless-consecutive-instances run={st.runNo} decided={decided}/{honest.length} K={st.K}"
      else .ok s!"run_multi_K{st.K}"

def step (st : St) (line : String) : St × Verdict :=
  let toks := splitWs line
  match toks with
  | "run" :: n :: rest =>
    ({ tbl := { entries := [] }, cfg := default, models := [], obs := [], drainHist := [], mode := (getKV rest "mode").getD "", runNo := n.toNat?.getD 0,
       K := ((getKV rest "K").bind (·.toNat?)).getD 1, gap := ((getKV rest "gap").bind (·.toInt?)).getD 0 }, .skip)
  | ["tbl", t] =>
    match (t.splitOn ",").mapM (fun e => match e.splitOn ":" with
        | [a, b] => do some ((← a.toNat?), (← b.toNat?))
        | _ => none) with
    | some es => ({ st with tbl := { entries := es } }, .skip)
    | none => (st, .bad "tbl")
  | ["pow", ps] =>
    -- the members' storage powers in table order: the scaled powers every threshold of the run is computed from
    -- must be the model's scaling of them (gpbft/powertable.go, C08) — consensus safety rests on it
    match parseIntList? ps with
    | some raw =>
      match F3.Power.scaled raw with
      | some (sc, _) =>
        if sc == st.tbl.entries.map (·.2) then (st, .ok "tbl_scaling")
        else (st, .oracle s!"C01-power-table-scaling the scaled powers {st.tbl.entries.map (·.2)} of the run's table are not floor(65535*power/total) of the members' powers (expected {sc}): quorum thresholds no longer reflect power")
      | none => (st, .bad "pow")
    | none => (st, .bad "pow")
  | "cfg" :: rest =>
    match (getKV rest "look").bind (·.toNat?), (getKV rest "rebimm").bind (·.toNat?), (getKV rest "qto").bind (·.toInt?),
          (getKV rest "to").bind parseIntList?, (getKV rest "reb").bind parseIntList? with
    | some l, some r, some q, some t, some rb =>
      ({ st with cfg := { maxLookahead := l, rebImmediateAfter := r, qualityTimeout2 := q, timeout2 := t, rebAfter := rb } }, .skip)
    | _, _, _, _, _ => (st, .bad "cfg")
  | "node" :: id :: rest =>
    match id.toNat?, (getKV rest "input").bind parseChain?, (getKV rest "faulty").bind (·.toNat?), (getKV rest "power").bind (·.toNat?) with
    | some id, some inp, some f, some pw =>
      -- `beginInstance`: the host's chain is cut to the protocol maximum (`chain.Prefix(ChainMaxLen - 1)`, 128 tipsets)
      let inp := inp.take 128
      let inst := ((getKV rest "inst").bind (·.toNat?)).getD 0
      -- messages queued for this instance before it began (kind `Q`) are delivered votes from now on, unless the
      -- late-binding checks (supplemental data, base) will drop them at the drain
      let old : Obs := (lookup st.obs id).getD {}
      let o0 : Obs := { input := inp, power := pw, faulty := f == 1, inst := inst, preSlots := old.preSlots }
      let o : Obs := old.pendingQ.foldl (fun (acc : Obs) mg =>
        if !mg.suppOk || !(mg.value.isEmpty || mg.value.head? == inp.head?) then acc else acc.recordVote mg) o0
      if f == 1 then ({ st with obs := update st.obs id o }, .skip)
      else
        let m : PState := match lookup st.models id with
          | some q => { q with inst := init st.cfg st.tbl inp }
          | none => { inst := init st.cfg st.tbl inp }
        ({ st with models := update st.models id m, obs := update st.obs id o,
                   pendingInput := update st.pendingInput (id % 1000) inp }, .skip)
    | _, _, _, _ => (st, .bad "node")
  | "o" :: id :: kind :: now :: _ =>
    match id.toNat?, now.toInt? with
    | some id, some now =>
      match line.splitOn "|" with
      | [head, effs, prog, ret] =>
        let headToks := splitWs head
        let detail := (headToks.drop 4).headD ""
        let r :=
          if kind == "Q" then processQueued st id now detail effs.trimAscii.toString ret.trimAscii.toString
          else if kind == "P" then processPast st id effs.trimAscii.toString ret.trimAscii.toString
          else processOp st id kind now detail effs.trimAscii.toString prog.trimAscii.toString ret.trimAscii.toString
        if st.mode != "multi" then r
        else
          let (st2, d) := processMulti r.1 id kind now detail effs.trimAscii.toString prog.trimAscii.toString
          match r.2, d with
          | .ok _, some msg => (st2, .diff s!"node={id} {msg}")
          | v, _ => (st2, v)
      | _ => (st, .bad "op fields")
    | _, _ => (st, .bad "op header")
  | "dec" :: id :: j :: rest =>
    -- decision as reported through the host: instance and supplemental data
    let want := ((id.toNat?.bind (lookup st.obs)).map (·.inst)).getD 0
    match (getKV rest "inst").bind (·.toNat?), (getKV rest "supp") with
    | some k, some "1" => if k == want then (st, .ok "dec") else (st, .oracle s!"C03-decision-wrong-instance-or-supplement node={id} {j}")
    | _, _ => (st, .oracle s!"C03-decision-wrong-instance-or-supplement node={id} {j}")
  | "cert" :: id :: agg :: res :: _ =>
    if agg != "agg=true" then (st, .oracle s!"C03-decision-aggregate-does-not-verify node={id}")
    else if res != "ok" then (st, .oracle s!"C03-certificate-rejected node={id} {res}")
    else (st, .ok "cert_ok")
  | "badhonest" :: rest => (st, .oracle ("C07-honest-message-invalid-at-peer " ++ " ".intercalate rest))
  | "undecided" :: _ => (st, .ok "undecided")
  | "end" :: _ :: rest =>
    match (getKV rest "gst").bind (·.toInt?), (getKV rest "delta").bind (·.toInt?), (getKV rest "now").bind (·.toInt?),
          (getKV rest "capped").bind (·.toNat?), (getKV rest "gstround").bind (·.toInt?), (getKV rest "decround").bind (·.toInt?) with
    | some g, some d, some n, some c, some gr, some dr =>
      (st, endRun { st with byzActs := ((getKV rest "byz").bind (·.toNat?)).getD 1 } g d n (c == 1) gr dr)
    | _, _, _, _, _, _ => (st, .bad "end")
  | _ => (st, .bad "unknown line")

end Driver.Gpbft

def main : IO UInt32 := Driver.runArea Driver.Gpbft.step {}
