"""C02 — validity. Layer A/N theorems, Layer B refinement (validity_model: a decision of the executable model of
gpbft.go is a non-empty prefix of an honest input) + network runs with decision-validity oracle."""
from checks import gpbft_common as g


def run(ctx):
    ctx.prove()
    g.network(ctx, "C02-")
    g.validation_gate(ctx)
    return ctx.finish(
        rule=g.RULE + " Oracle C02: every decision is non-bottom, starts at the base, and is a prefix of an honest input.",
        trusted_base=g.TRUSTED + [
            "validity_model's hypotheses about the environment: delivered messages satisfy F3.Instance.MsgValid (shape half "
            "re-checked by the driver on every delivered message, existence half = signature verification, C05); no internal error"],
        assumptions=["signature unforgeability", "faulty members hold < 1/3 of scaled power",
                     "second sentence: unanimous_sync_invariant / unanimous_sync_decides hold for the untimed form of the "
                     "synchrony bound (F3.Net.SyncOrdered: a node that finds a round-0 phase timeout expired has been handed "
                     "that phase's message of every honest node); timed_sync_ordered / unanimous_timed_decides derive it from the "
                     "real-time bound (F3.NetTimed.TimedSync: starts within Delta, delays strictly below Delta, timeouts >= 2 Delta)"],
        search=g.search("C02-"),
        partial=["timed_sync_ordered (real-time bound => SyncOrdered) needs a tipset beyond the base: for a base-only unanimous chain the "
                 "implication is refuted (timed_sync_ordered_needs_suffix; QUALITY then ends by its timer only and alarms need not be punctual) "
                 "— the decision itself is not affected in the counterexample"],
    )
