"""C02 — validity. Layer A/N theorems, Layer B refinement (validity_model: a decision of the executable model of
gpbft.go is a non-empty prefix of an honest input) + network runs with decision-validity oracle."""
from checks import gpbft_common as g


def run(ctx):
    ctx.prove()
    g.network(ctx, "C02-")
    g.validation_gate(ctx)
    return ctx.finish(
        rule=g.RULE + " Oracle C02: every decision is non-bottom, starts at the base, and is a prefix of an honest input.",
        trusted_base=g.TRUSTED + [
            "validity_model's hypotheses about the environment: delivered messages satisfy F3.Instance.MsgValid (shape half "
            "re-checked by the driver on every delivered message, existence half = signature verification, C05); no internal error"],
        assumptions=["signature unforgeability", "faulty members hold < 1/3 of scaled power",
                     "second sentence: unanimous_sync_invariant / unanimous_sync_decides hold for the untimed form of the "
                     "synchrony bound (F3.Net.SyncOrdered: a node that finds a round-0 phase timeout expired has been handed "
                     "that phase's message of every honest node); that real-time delivery within the bound implies this "
                     "ordering is argued in F3/Model/Net.lean and validated by sync-mode runs, not mechanised"],
        search=g.search("C02-"),
        partial=["real-time synchrony => SyncOrdered (clock/latency arithmetic outside the untimed model; validated by sync-mode runs)"],
    )
