"""C11 — WAL: acknowledged entries survive crashes and torn writes; no phantoms; purge is conservative and
complete for closed files.  Theorems over F3.Wal (all histories, all torn tails, abstract codec); h_wal drives
the real internal/writeaheadlog over real directories with byte-level truncation of the last record."""


def search(ctx):
    bad = []
    for seed in (ctx.seed + 101, ctx.seed + 202):
        st = ctx.correspond("h_wal", "Wal", tag="search", seed=seed, env={"VERIF_WAL_BUDGET_MB": "3000"})
        bad += [m for m in st.get("messages", []) if m.startswith("ORACLE-FAIL")]
        if bad:
            break
    return bad[:20] or None


def run(ctx):
    ctx.prove()
    st = ctx.correspond("h_wal", "Wal", nontrivial=r"^(append|all|purge|open|crashappend|codec|walentry|refuse) ")
    hist = st.get("hist", {})
    series, full, maxfull = 0, 0, 0
    try:
        for l in open(st.get("log", "/dev/null"), errors="replace"):
            if l.startswith("# tornseries"):
                kv = dict(x.split("=") for x in l.split()[2:])
                series += 1
                if kv.get("full") == "true":
                    full += 1
                    maxfull = max(maxfull, int(kv.get("len", "0")))
    except OSError:
        pass
    return ctx.finish(
        rule="h_wal: one line per operation on the real WriteAheadLog over a real directory (open/append/rotate/close/"
             "purge/all/crash) or per torn-write experiment (fork: the last record of the active file cut at byte n, "
             "restart, All(), follow-up ops); every line is checked against F3.Wal.step and against the property oracle "
             "(ACKED-LOST, PHANTOM, ORDER, DUPLICATE, CORRUPT, PURGE-LOST, PURGE-INCOMPLETE, PURGE-ACTIVE, OLDFILE-APPEND, "
             "CODEC-HYP). distinct_nontrivial = distinct op lines (file names carry the creation time).",
        trusted_base=["file system: a completed fsync is durable, a crash truncates only the in-flight write (the "
                      "harness simulates the torn write by truncating a copy of the active file)",
                      "record codec: Codec.Ok (round trip, no strict prefix decodes) is a hypothesis of the generic theorems; it is PROVED "
                      "for the cbor-gen model of every regenerated schema (cbor_codec_ok_every_type, walCodec_ok; decode_torn: a strict "
                      "prefix of an encoding always ends in end-of-input), giving acked_survive_cbor / no_phantoms_cbor / "
                      "wal_durability_cbor over bytes for the GMessage record; walEntry's delegation to GMessage (wal.go) is read by hand; "
                      "tested by h_wal on the real GMessage codec (codec lines); the driver itself runs the token codec",
                      "record-level abstraction in the driver: a record is two tokens whose weights add up to the real "
                      "encoded size; any byte offset strictly inside a record maps to the one-token prefix"],
        assumptions=["storage errors: open/fsync/remove succeed; a write(2) that fails part-way IS exercised (RLIMIT_FSIZE around "
                     "one Append): the Append is not acknowledged and must leave no fragment (S15, fixed) — the model's failed "
                     "append writes nothing",
                     "file names (wall-clock timestamps) are fresh; a clash makes Append fail (modelled)"],
        search=search,
        extra_cov={"torn_offsets": hist.get("torn_0", 0) + hist.get("torn_mid", 0) + hist.get("torn_full", 0),
                   "rotations_by_size": hist.get("append_rotated_by_size", 0),
                   "torn_series": series, "torn_series_every_byte_offset": full,
                   "longest_record_cut_at_every_byte": maxfull,
                   "exhaustive": full > 0},
    )
