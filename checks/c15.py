"""C15 — proposals extend the finalized head along EC; committees derive from finalized history only.
h_inputs drives the real gpbftInputs (GetProposal / GetCommittee) of package f3 over a harness EC backend
(finite block tree: null rounds, forks before/at/after the base, head behind the base, chains longer than
any maximum, evolving power tables) and a real certificate store filled instance by instance."""

NT = r"^(prop|comm|put) "


def search(ctx):
    st = ctx.correspond("h_inputs", "Inputs", tag="search", seed=ctx.seed + 101, nontrivial=NT,
                        env={"VERIF_INPUTS_MODE": "c15", "VERIF_INPUTS_ONLY": "node", "VERIF_INPUTS_NODE": "600"})
    found = [m for m in st.get("messages", []) if m.startswith("ORACLE-FAIL")]
    return found[:20] or None


def run(ctx):
    ctx.prove()
    st = ctx.correspond("h_inputs", "Inputs", nontrivial=NT, env={"VERIF_INPUTS_MODE": "c15", "VERIF_INPUTS_ONLY": "node"})
    hist = st.get("hist", {})
    return ctx.finish(
        rule="h_inputs (node scenarios): one scenario = one generated block tree + manifest (initial instance, bootstrap "
             "epoch, finality, head look-back, proposal length 1..300, committee look-back 1..10) + a real certificate "
             "store; per instance the EC head and the clock are moved, then `prop` = one real GetProposal, `comm` = one "
             "real GetCommittee (current, next and arbitrary instances), `put` = the certificate finalizing a prefix of "
             "the proposal, stored in the real store. distinct_nontrivial = distinct prop/comm/put lines.",
        trusted_base=[
            "hand model F3.Inputs (collectChain, trimming, base selection, getCommittee) tied by h_inputs; the harness's "
            "tree EC backend and its interning of tipset keys / power-table CIDs / beacons",
            "certstore modelled as: certificates of consecutive instances; GetPowerTable(i) = initial table for the first "
            "instance, else the table committed by certificate i-1 (C09; CID injectivity)",
        ],
        assumptions=[
            "EC blocks have strictly increasing epochs along parent pointers (acyclic tree); otherwise collectChain need not terminate",
            "participant-side truncation (chain.Prefix(ChainMaxLen-1), gpbft/participant.go) is outside this component",
        ],
        search=search,
        extra_cov={"proposals_checked": sum(v for k, v in hist.items() if k.startswith("prop_")),
                   "committees_checked": sum(v for k, v in hist.items() if k.startswith("comm_"))},
    )
