"""C09 — certificate store: gap-free immutable history with derivable power tables.
Theorems over F3.Store (model of certstore.go) refined to F3.Store.Spec; h_store drives the real store
through random histories (all ops incl. rejected puts, reopen anywhere, lowered and real checkpoint
period) and the driver compares every answer with the model (diff) and with the spec (oracle)."""

NONTRIVIAL = r"^(put|get|range|pt|latest|obs|open|create|ooc|recv|sub|delall|robs|conc) "


def search(ctx):
    out = []
    for seed in (ctx.seed + 101, ctx.seed + 202):
        st = ctx.correspond("h_store", "Store", args=("c09",), tag="search", seed=seed, tier="thorough",
                            env={"VERIF_STORE_HIST": "150"}, nontrivial=NONTRIVIAL)
        out += [m for m in st.get("messages", []) if m.startswith("ORACLE-FAIL")]
        if out:
            break
    return out[:20] or None


def run(ctx):
    ctx.prove()
    st = ctx.correspond("h_store", "Store", args=("c09",), tag="c09", nontrivial=NONTRIVIAL)
    # datastore ERRORS inside Put (the k-th write fails, the handle lives on): taken from the crash-point
    # enumeration of the store harness, which forks the store at every write of every Put — the handle must still
    # show the state before the Put and the Put must be repeatable (C09-failed-put-changed-state / -not-repeatable)
    ctx.correspond("h_store", "Store", args=("c10",), tag="c09-ioerr", nontrivial=r"^obs tag=io",
                   env={"VERIF_STORE_CRASH": "1200" if ctx.tier == "thorough" else "150"},
                   oracle_filter=r"C09-", diff_filter=r":: (obs tag=io|put )")
    if ctx.tier == "thorough":
        for d in (1, 2):
            ctx.correspond("h_store", "Store", args=("c09",), tag="c09-s%d" % d, seed=ctx.seed + 7919 * d,
                           nontrivial=NONTRIVIAL, env={"VERIF_STORE_HIST": "250"})
        # concurrent readers / subscriber beside the writer, under the race detector
        ctx.correspond("h_store", "Store", args=("conc",), tag="c09-race", nontrivial=NONTRIVIAL, race=True)
    return ctx.finish(
        rule="h_store c09: one line = one call of the real certstore API (create/openOrCreate/open/put/get/getRange/"
             "latest/getPowerTable/subscribe/recv/deleteAll) or one full observation (obs: latest + every certificate + "
             "every power table) with the implementation's answer and, for mutating calls, the datastore writes it "
             "issued. distinct_nontrivial = distinct op lines (definition lines excluded).",
        trusted_base=["hand model F3.Store of certstore.go + certs.ApplyPowerTableDiffs (tied by h_store on every run)",
                      "go-datastore MapDatastore / namespace.Wrap as a key->bytes map with atomic single-key put/delete",
                      "CIDs modelled by the value hashed (blake2b-256 collision-free, CBOR encoding injective); "
                      "certificate bytes / public keys interned by the harness",
                      "Go channel semantics (capacity-1 buffered channel) for the subscriber model"],
        assumptions=["initial power tables are canonical (sorted by power desc, id asc; unique ids) — what "
                     "gpbft.PowerTable produces; instances stay below 2^64",
                     "one store handle per datastore at a time; Store.Delete (explicit removal of one instance) is outside the property",
                     "concurrent readers/writers: model is sequential (one lock-protected section per op); goroutine "
                     "interleavings are not exhibited (partial)"],
        search=search,
        partial=["subscriber_never_blocks is about the sequential channel model; goroutine-level behaviour (atomicity of the "
                 "lock-protected sections, non-blocking under real scheduling) is exercised by the concurrent phase "
                 "(`conc` lines; thorough: under -race) but not proved"],
        extra_cov={"frequencies": "2,3,5,7 via accessor + real 1440 crossing a boundary"},
    )
