"""C12 — a node never self-equivocates on the wire across requests, rebroadcasts and restarts; every message is
recorded before it is published; the WAL re-arms the filter on restart.  Theorems over F3.Equiv (all
request / rebroadcast / restart / crash-point / purge histories); h_equiv drives (a) the real equivocationFilter
alone (sequences + complete state-space enumeration for small alphabets) and (b) the real node through
f3.New/Start/Stop/Broadcast, observing Topic.Publish with a synchronous pubsub event tracer."""


def search(ctx):
    bad = []
    for seed in (ctx.seed + 101, ctx.seed + 202, ctx.seed + 303):
        st = ctx.correspond("h_equiv", "Equiv", tag="search-node", seed=seed, tier="quick",
                            env={"VERIF_EQUIV_MODE": "node", "VERIF_EQUIV_HISTORIES": "150"})
        bad += [m for m in st.get("messages", []) if m.startswith("ORACLE-FAIL")]
        if bad:
            break
    if not bad:
        st = ctx.correspond("h_equiv", "Equiv", tag="search-filter", seed=ctx.seed + 404, tier="quick",
                            env={"VERIF_EQUIV_MODE": "filter"})
        bad += [m for m in st.get("messages", []) if m.startswith("ORACLE-FAIL")]
    return bad[:20] or None


def run(ctx):
    ctx.prove()
    sf = ctx.correspond("h_equiv", "Equiv", tag="filter", env={"VERIF_EQUIV_MODE": "filter"},
                        nontrivial=r"^(pb|pr|fx) ")
    sn = ctx.correspond("h_equiv", "Equiv", tag="node", env={"VERIF_EQUIV_MODE": "node"},
                        nontrivial=r"^(bc|rb|cert|start) ")
    # C12 rests on the log: "every message is recorded durably before it is published and the record re-arms the filter
    # on restart". The WAL's own stream (C11) is replayed here as well: an acknowledged record that does not come back,
    # or a refused Append that leaves bytes behind, disarms the filter after the next restart.
    ctx.correspond("h_wal", "Wal", tag="wal", nontrivial=r"^(append|all|purge|open|refuse|walentry) ",
                   oracle_filter=r"ACKED-LOST|REFUSED-APPEND|WALENTRY-NOT-INTACT|ACK-BEFORE-FSYNC|CORRUPT|OLDFILE")
    spaces = []
    try:
        for l in open(sf.get("log", "/dev/null")):
            if l.startswith("# filterSpace"):
                spaces.append(l[2:].strip())
    except OSError:
        pass
    return ctx.finish(
        rule="filter stream: one line per ProcessBroadcast/ProcessReceive on the real equivocationFilter (random "
             "sequences; fx lines = every operation of a small alphabet from every reachable filter state, "
             "breadth-first over canonical state dumps). node stream: one line per Broadcast / rebroadcast / certificate / "
             "stop / start of a real f3.F3 node over a real WAL directory (crash = restart from a directory snapshot "
             "taken before the request or inside the publish callback); checked against F3.Equiv.step and the oracle "
             "(EQUIVOCATION, OLDER-INSTANCE, PUBLISH-BEFORE-RECORD, REARM-MISSING, PURGE-LOST, WAL-LOST, WAL-PHANTOM, "
             "UNKNOWN-PUBLISH, FILTER-EQUIVOCATION, FILTER-OLDER). distinct_nontrivial = distinct op lines.",
        trusted_base=["observation point: the PUBLISH_MESSAGE trace event of go-libp2p-pubsub v0.15.0, emitted "
                      "synchronously at the top of Topic.Publish (before local validation / de-duplication); gossip "
                      "propagation to remote peers is not observed",
                      "WAL durability and crash behaviour (C11): a crash leaves the directory as snapshotted",
                      "message identity: the harness maps pubsub message ids back to requests through the node's own "
                      "partial-message conversion and encoding"],
        assumptions=["no storage errors (a failed WAL append is only logged by BroadcastMessage and the message is "
                     "published anyway)",
                     "no other node signs with this node's identity (ProcessReceive is not even wired in at this commit)",
                     "host level (…_host theorems): the certificate store is durable (C09/C10) so `latest` never "
                     "decreases; a message builder handed to the embedder is signed in the process lifetime that "
                     "requested it (the `requests at or above the purge epoch` hypothesis of the Equiv-level theorems is "
                     "then derived: restart at latest+1, purge at cert-5, participant instance monotone); with a "
                     "builder kept across Stop/Start of the SAME F3 object the model equivocates (sharpness example, "
                     "DESIGN §12.9) — process restarts cannot do that"],
        search=search,
        partial=[],
        extra_cov={"filter_state_spaces": spaces, "exhaustive": bool(spaces) and all("complete=true" in s for s in spaces)},
    )
