"""C05 — message validation is sound, complete when relevant, and history-independent.
Theorems on F3.Validator (executable model of gpbft/validator.go + internal/caching) against the declarative
F3.Spec.ValidMsg.validMsg; h_validate drives the real gpbft.Participant validator (warm participant with tiny
caches vs fresh participants) on really signed messages and their corruptions / recombinations."""

NONTRIVIAL = r"^(v|t|tt|cv|h) "


def search(ctx):
    bad = []
    for sd in (ctx.seed + 101, ctx.seed + 202):
        st = ctx.correspond("h_validate", "Validate", tag="search", seed=sd,
                            env={"VERIF_VALIDATE_MODE": "c05", "VERIF_VALIDATE_WORLDS": "150"})
        bad += [m for m in st.get("messages", []) if m.startswith("ORACLE-FAIL")]
        if bad:
            break
    return bad[:20] or None


def run(ctx):
    ctx.prove()
    from checks import gpbft_common as g
    g.power_gate(ctx)
    worlds = "1500" if ctx.tier == "thorough" else "120"
    ctx.correspond("h_validate", "Validate", nontrivial=NONTRIVIAL,
                   env={"VERIF_VALIDATE_MODE": "c05", "VERIF_VALIDATE_WORLDS": worlds})
    if ctx.tier == "thorough":
        # supporting validation of the goroutine-level sub-claim: the same workload (incl. the concurrent phase that ends
        # every world: 6 goroutines x 2 passes over a shared participant) under the race detector; a reported race makes
        # the harness exit non-zero
        ctx.correspond("h_validate", "Validate", nontrivial=NONTRIVIAL, tag="h_validate_race", race=True, seed=ctx.seed + 7,
                       env={"VERIF_VALIDATE_MODE": "c05", "VERIF_VALIDATE_WORLDS": "15", "GORACE": "halt_on_error=1"})
    return ctx.finish(
        rule="h_validate (mode c05): one line = one validation request (v: ValidateMessage; t: PartiallyValidate + "
             "completion + FullyValidate + ValidateMessage of the completed message; h: real CompleteMessage then ValidateMessage or "
             "PartiallyValidateMessage as in validatePubsubMessage) presented to a long-lived participant "
             "(cache sizes 1..25000 entries x 1..10 groups, pruned by StartInstanceAt) AND to fresh participants at the same "
             "progress; the line carries the symbolic message (signature tokens resolved from the real bytes), all verdicts, "
             "the cache membership of the keys involved and the cache structure. The driver replays F3.Validator.validate / "
             "partially / fully with the model cache, compares verdicts + cache, and evaluates validMsg / relevant / "
             "warm = fresh; cv = verdicts of 6 goroutines validating one batch concurrently on the warm participant vs a fresh one (thorough tier repeats a slice of the workload under -race). distinct_nontrivial = distinct v/t/cv lines.",
        trusted_base=[
            "symbolic cryptography: a FakeBackend signature / aggregate is the token (key, signed bytes) kept in the harness "
            "table; unknown bytes are garbage; signed bytes are resolved to (network, instance, round, phase, supp, key) by the "
            "table of payloads the harness marshalled with the real MarshalForSigningWithValueKey / vrfSerializeSigInput "
            "(two symbolic payloads with equal bytes are reported as PAYLOAD-COLLISION); injectivity proper is C14",
            "chain key = chain (merkle/keccak collision-freeness, C14); cache key = pre-image of blake2b(namespace, CBOR bytes) "
            "and CBOR injective on messages (C14); CBOR encodability is an input flag measured on the real MarshalCBOR",
            "F3.Gen.isStrongQuorum is regenerated from gpbft.go; tied to 3p>=2w by Props/C08.strong_iff",
            "committee provider returns the same committee for an instance for the lifetime of the cache (hypothesis of the "
            "history-independence theorem)",
        ],
        assumptions=["uint64 fields are < 2^64 (wire types); current instance + committee lookback < 2^64",
                     "power-table actor ids are unique (PowerTable.Add enforces it)",
                     "goroutine-level atomicity of GroupedSet/Set (mutex-protected) is not exhibited by the sequential model: "
                     "the concurrent-validation sub-claim is partial"],
        search=search,
        partial=["concurrent validation from many goroutines (runtime; the model is sequential per cache operation)"],
    )
