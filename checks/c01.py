"""C01 — agreement. Layer A/N theorems (Props/C01) + network runs with pairwise-decision oracle."""
from checks import gpbft_common as g


def run(ctx):
    ctx.prove()
    g.network(ctx, "C01-")
    return ctx.finish(
        rule=g.RULE + " Oracle C01: all honest decisions of a run are equal.",
        trusted_base=g.TRUSTED + ["Layer B (model emits only under the guards of F3.Granite.Guard, decides only on a DECIDE quorum) is "
                                  "held by correspondence + the C07 theorems, not yet by a single refinement theorem"],
        assumptions=["signature unforgeability (hypothesis: a vote of an honest member exists only if it emitted it)",
                     "faulty members hold < 1/3 of scaled power",
                     "mid-instance restarts are out of scope here (C12 composes)"],
        search=g.search("C01-"),
        partial=["agreement_network_refinement: bridge from F3.Instance.step to F3.Granite.Step not mechanised"],
    )
