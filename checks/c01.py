"""C01 — agreement. Layer A/N theorems, Layer B refinement (agreement_model: any family of honest runs of the
executable model of gpbft.go agrees) + network runs with pairwise-decision oracle and MsgValid check."""
from checks import gpbft_common as g


def run(ctx):
    ctx.prove()
    g.network(ctx, "C01-")
    g.validation_gate(ctx)
    return ctx.finish(
        rule=g.RULE + " Oracle C01: all honest decisions of a run are equal.",
        trusted_base=g.TRUSTED + [
            "agreement_model's hypotheses about the environment: every delivered message satisfies F3.Instance.MsgValid (its vote "
            "and the votes aggregated by its justification exist; shape per phase) — the shape half is re-checked by the driver "
            "on every message the real validator let through (msgStructB, proved sound: msgValidB_sound), the existence half is "
            "signature verification (C05) under unforgeability; that no run reports an internal error or panic is C07.no_internal_error_or_panic (agreement_model_unconditional needs no such hypothesis)"],
        assumptions=["signature unforgeability (hypothesis: a vote of an honest member exists only if it emitted it)",
                     "faulty members hold < 1/3 of scaled power",
                     "mid-instance restarts: agreement_model_restarts composes with C12 (the wire of a restarting member carries one value per slot and only requested votes: PublishedOK, discharged from C12.wire_no_equivocation / record_before_publish)"],
        search=g.search("C01-"),
    )
