"""C08 — quorum arithmetic. Theorems over definitions regenerated from gpbft.go; h_quorum compares the
real predicates with the specification (3p >= 2w, ...) on the power domain."""


def search(ctx):
    st = ctx.correspond("h_quorum", "Quorum", tag="search", tier="thorough")
    bad = [m for m in st.get("messages", []) if m.startswith("ORACLE-FAIL")]
    return bad[:20] or None


def run(ctx):
    ctx.prove()
    st = ctx.correspond("h_quorum", "Quorum", nontrivial=r"^(sqrow|wqrow|cr|scaled|sq|wq) ")
    # "the certificate validator, message validator and tally agree on the same threshold": the threshold predicate is
    # shared code, but each caller decides when to CALL it — the message validator skips it on a cache hit. The
    # validator's own stream (both paths, warm caches) is replayed here: a justification let through below 2/3 is a
    # failing input for this property as well.
    from checks import gpbft_common as g
    g.validation_gate(ctx)
    exhaustive = ctx.tier == "thorough" and st.get("hist", {}).get("sqrow", 0) == 65536
    return ctx.finish(
        rule="h_quorum: every line is one evaluation of the real Go predicate (sq/wq: one (part,whole) pair; "
             "sqrow/wqrow: a complete scan of part in [0,65535] for one total (thorough: all 65536 totals = the whole "
             "power domain); cr: CouldReachStrongQuorumFor on a synthetic tally; scaled: PowerEntries.Scaled on a "
             "random big-integer table). distinct_nontrivial = distinct lines.",
        trusted_base=["tools/go2lean translator (Go int64 -> Int with truncated division) for divCeil, IsStrongQuorum, "
                      "hasWeakQuorum, CouldReachStrongQuorumFor (tail), extracted call sites",
                      "hand model F3.Power of scalePower/Scaled (tied by h_quorum); big.Int arithmetic trusted"],
        assumptions=["scaled powers are computed with arbitrary-precision integers (go-state-types/big)"],
        search=search,
        extra_cov={"exhaustive": bool(exhaustive)},
    )
