"""C14 — encodings. Theorems over the byte-level models of the signing payload / tipset / VRF input, the
merkle chain key (direct = batch; key equality reduces to an exhibited hash collision) and a generic cbor-gen codec
whose schema table is re-extracted from the Go sources on every run (tools/schemafacts ->
lean/F3/Gen/Schema.lean). h_codec compares the real encoders / decoders with the executable models."""
import os

from . import common

NONTRIVIAL = r"^(merkle|keys|dkey|pay|sens|vrf|vsens|ts|tsens|rt|dec|decbig|zbomb|zcap|zdec|zconc) "


def regen_schema():
    """Rebuild tools/schemafacts if needed and regenerate lean/F3/Gen/Schema.lean from the working tree.
    Returns (ok, message). The file is only rewritten when its content changes (keeps lake incremental)."""
    with common.Lock():
        src = os.path.join(common.VERIF, "tools", "schemafacts")
        tool = os.path.join(common.BIN, "schemafacts")
        if common.newer([src + "/*.go"], tool):
            os.makedirs(common.BIN, exist_ok=True)
            rc, out = common.sh(["go", "build", "-o", tool, "."], cwd=src, env=common.goenv(), timeout=600)
            if rc != 0:
                return False, "cannot build schemafacts: " + out[-800:]
        gen = os.path.join(common.LEAN, "F3", "Gen")
        os.makedirs(gen, exist_ok=True)
        out_path = os.path.join(gen, "Schema.lean")
        tmp = out_path + ".new"
        if os.path.exists(tmp):
            os.remove(tmp)
        rc, out = common.sh([tool, common.REPO, tmp])
        if rc != 0 or not os.path.exists(tmp):
            # keep a stale file out of the build: the schema of the working tree is unknown
            if os.path.exists(out_path):
                os.remove(out_path)
            return False, out.strip()[-800:]
        if os.path.exists(out_path) and open(out_path).read() == open(tmp).read():
            os.remove(tmp)
        else:
            os.replace(tmp, out_path)
    return True, ""


def search(ctx):
    """Failing-input search: the thorough generators, then two more seeds of the quick ones."""
    found = []
    for seed, tier in ((ctx.seed, "thorough"), (ctx.seed + 101, "quick"), (ctx.seed + 202, "quick")):
        st = ctx.correspond("h_codec", "Codec", tag="search-%s-%s" % (tier, seed), tier=tier, seed=seed, nontrivial=NONTRIVIAL,
                            env={"GOGC": "800"})
        found += [m for m in st.get("messages", []) if m.startswith("ORACLE-FAIL")]
        if found:
            break
    return [m[:2000] for m in found[:20]] or None


def run(ctx):
    ok, msg = regen_schema()
    if not ok:
        common.log("[C14] schema extraction broken: " + msg)
    pr = ctx.prove()
    if not ok:
        pr["translator_ok"] = False
        pr["messages"].append("schemafacts: " + msg)
    st = ctx.correspond("h_codec", "Codec", nontrivial=NONTRIVIAL, env={"GOGC": "800"})
    hist = st.get("hist", {})
    return ctx.finish(
        rule="h_codec: one line = one observation of the real code. pay/ts/vrf: bytes of MarshalForSigning / "
             "TipSet.MarshalForSigning / vrfSerializeSigInput for a generated input (model recomputes them, chain keys "
             "included, with executable keccak/blake2b); sens/tsens/vsens: the same input with exactly one field changed "
             "(oracle: bytes differ); keys/dkey/merkle: chain keys per prefix computed directly, in batch, from cached "
             "prefix objects and after Extend/Prefix/Append/BaseChain of a chain whose key was cached; rt: "
             "encode, decode(encode), determinism, zstd round trip of a generated value of one of the 16 codec types "
             "(boundary sizes and over-limit values); dec/zdec/zbomb/zcap/decbig: decoder verdict, consumed bytes, panic "
             "and allocation on truncated / oversized / grown / mutated / foreign / random input and zstd bombs. "
             "distinct_nontrivial = distinct lines.",
        trusted_base=[
            "tools/schemafacts (go/ast extractor of struct fields, cborgen tags and the limits in cbor_gen.go) -> F3.Gen.Schema",
            "hand models F3.Payload, F3.Merkle, F3.Cbor (tied by h_codec, byte-for-byte)",
            "the key theorems are reductions: equal keys / signing bytes of different chains exhibit a collision or a zero-digest preimage of keccak-256, or a collision of blake2b-256, among the finitely many strings hashed by the two computations (*_collision_extract(_real); nothing is assumed of the hashes; the idealised-injectivity forms are kept as corollaries); the "
            "executable Lean hashes are used only by the driver",
            "external leaf codecs modelled, not verified: cbor-gen head reader/writer and CID framing, go-cid Cast, "
            "go-state-types big.Int bytes, go-bitfield RLE+ (opaque byte string), klauspost/zstd (abstract codec with a cap)",
        ],
        assumptions=[
            "CIDs inside encoded values are at most 511 bytes (cbor-gen ReadCid limit; validated go-f3 values carry <= 38)",
            "panic-freedom and the measured allocation of the Go decoders and of zstd are runtime behaviour: validated by the "
            "malformed stream (recover + MemStats TotalAlloc deltas against Schema.allocBound) only; the proved bound is about "
            "the model's make-requests (allocReq)",
        ],
        search=search,
        partial=["go_runtime_panic_freedom_and_measured_allocation (the Go decoders / zstd on arbitrary bytes: validated by the "
                 "malformed stream only; the model-level counterparts decode_alloc_bounded, decode_accepts_only_within_limits, "
                 "decode_rejects_overlimit are proved and the model's allocReq is checked to be a lower bound of the measured "
                 "allocation on every dec line)"],
        extra_cov={"codec_types": len([k for k in hist if k.startswith("rt_") and k != "rt_reject_overlimit"]),
                   "schema_extraction_ok": ok},
    )
