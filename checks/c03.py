"""C03 — decisions are self-contained finality proofs. Theorems on the model's decision construction
(Props/C03) + every decision observed in network runs is checked for shape, its aggregate verified over exactly
the decided value, and turned into a certificate validated by the real certs.ValidateFinalityCertificates."""
from checks import gpbft_common as g


def run(ctx):
    ctx.prove()
    g.network(ctx, "C03-")
    g.validation_gate(ctx)
    # the host's real saveDecision (host.go): decision -> certificate with the delta towards the next committee ->
    # stored; judged on the `save` lines of the consensus-inputs harness (evolving power tables, real certstore)
    ctx.correspond("h_inputs", "Inputs", tag="host-save", nontrivial=r"^save ", oracle_filter=r"C03-", diff_filter=r":: save ",
                   env={"VERIF_INPUTS_MODE": "c03", "VERIF_INPUTS_ONLY": "node"})
    return ctx.finish(
        rule=g.RULE + " Oracle C03: per decision — instance, round 0, DECIDE, supplemental data, strictly increasing signer "
                      "indices in range with non-zero scaled power forming a strong quorum; aggregate verifies over the decided "
                      "value; NewFinalityCertificate + ValidateFinalityCertificates accept it with the correct delta.",
        trusted_base=g.TRUSTED + ["certs.ValidateFinalityCertificates itself is the subject of C04"],
        assumptions=["committee members deliver only validated messages to the instance (C05)"],
        search=g.search("C03-"),
        partial=["the model's justification record carries no instance id and no supplemental data (the harness hands the "
                 "model two booleans instOk / suppOk computed on the real message): 'the justification is for that instance "
                 "and the instance's supplemental data' is judged by the per-decision oracle and by the real certificate "
                 "validation on every run, not by a theorem",
                 "the certificate is built in Lean by decisionCert (Proofs/DecisionCert); its tie to certs.NewFinalityCertificate "
                 "/ host.saveDecision is the host-save stream (real saveDecision, real certstore), not a translation"],
    )
