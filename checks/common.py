"""Shared machinery of ./check (python3 stdlib only).

One check run = regenerate (translator) -> prove (lake build + axiom audit + forbidden-token grep)
-> correspond (Go harness built from /repo's working tree through an add-only overlay, piped into the
compiled core-only Lean driver) -> oracle (evaluated by the driver on the implementation's own
observations) -> on any break: failing-input search -> evidence.  See DESIGN.md section 2.1.
"""
import fcntl
import glob
import hashlib
import json
import os
import re
import shutil
import subprocess
import sys
import time

VERIF = os.path.dirname(os.path.dirname(os.path.abspath(__file__)))
REPO = os.environ.get("VERIF_REPO", "/repo")
LEAN = os.path.join(VERIF, "lean")
BIN = os.path.join(VERIF, "bin")
WORK = os.path.join(VERIF, "work")
HARNESS = os.path.join(VERIF, "harness")
STD_AXIOMS = {"propext", "Classical.choice", "Quot.sound"}
FORBIDDEN = re.compile(r"\bsorry\b|\badmit\b|^\s*axiom\s|native_decide|bv_decide|implemented_by|\bunsafe\s|maxHeartbeats\s+0")

TRUSTED_COMMON = [
    "Lean 4.33.0 kernel; axioms propext, Classical.choice, Quot.sound only (audited by #print axioms on every run)",
    "correspondence harness + f3driver: generators bound what is observed",
]


def log(msg):
    print(msg, flush=True)


def goenv():
    e = dict(os.environ)
    e["GOFLAGS"] = "-mod=mod"
    e["GOPROXY"] = "off"
    e.pop("GOSUMDB", None)  # GOSUMDB=off breaks the repo's toolchain resolution on this image
    e.setdefault("GOCACHE", os.path.join(os.path.expanduser("~"), ".cache", "go-build"))
    return e


def sh(cmd, cwd=None, env=None, timeout=None, stdin=None, stdout=subprocess.PIPE):
    p = subprocess.run(cmd, cwd=cwd, env=env, timeout=timeout, stdin=stdin, stdout=stdout,
                       stderr=subprocess.STDOUT if stdout == subprocess.PIPE else subprocess.PIPE, text=True)
    return p.returncode, (p.stdout if stdout == subprocess.PIPE else p.stderr) or ""


class Lock:
    """Serialises builds that share directories (lean/.lake, lean/F3/Gen, bin)."""

    def __init__(self, name="build"):
        os.makedirs(WORK, exist_ok=True)
        self.path = os.path.join(WORK, name + ".lock")

    def __enter__(self):
        self.f = open(self.path, "w")
        fcntl.flock(self.f, fcntl.LOCK_EX)
        return self

    def __exit__(self, *a):
        fcntl.flock(self.f, fcntl.LOCK_UN)
        self.f.close()


def newer(src_glob, target):
    if not os.path.exists(target):
        return True
    t = os.path.getmtime(target)
    for g in src_glob:
        for f in glob.glob(g, recursive=True):
            if os.path.getmtime(f) > t:
                return True
    return False


def gen_overlay(name=None):
    """Map files under harness/{cmd/<name>,lib,inpkg} to NEW paths inside the go-f3 module.
    Only in-package accessor files whose name starts with `<area>_` (area = harness name without h_) or
    `common_` are included, so one area's accessors never affect another area's build."""
    area = (name or "")[2:] if (name or "").startswith("h_") else (name or "")
    repl = {}
    for root, _, files in os.walk(os.path.join(HARNESS, "cmd", name) if name else os.path.join(HARNESS, "cmd")):
        for f in files:
            if f.endswith(".go"):
                rel = os.path.relpath(os.path.join(root, f), HARNESS)
                repl[os.path.join(REPO, "internal", "verifh", rel)] = os.path.join(root, f)
    for root, _, files in os.walk(os.path.join(HARNESS, "lib")):
        for f in files:
            if f.endswith(".go"):
                rel = os.path.relpath(os.path.join(root, f), HARNESS)
                repl[os.path.join(REPO, "internal", "verifh", rel)] = os.path.join(root, f)
    inpkg = os.path.join(HARNESS, "inpkg")
    for root, _, files in os.walk(inpkg):
        for f in files:
            if f.endswith(".go") and (name is None or f.startswith(area + "_") or f.startswith("common_")):
                pkg = os.path.relpath(root, inpkg)
                pkg = "" if pkg == "root" else pkg.replace("__", "/")
                dst = os.path.join(REPO, pkg, "zz_verif_" + f)
                if os.path.exists(dst):
                    raise SystemExit("overlay would shadow an existing file: " + dst)
                repl[dst] = os.path.join(root, f)
    path = os.path.join(WORK, "overlay%s.json" % ("." + name if name else ""))
    os.makedirs(WORK, exist_ok=True)
    with open(path, "w") as fh:
        json.dump({"Replace": repl}, fh, indent=1)
    return path


def build_go2lean():
    tgt = os.path.join(BIN, "go2lean")
    src = os.path.join(VERIF, "tools", "go2lean")
    if newer([src + "/*.go"], tgt):
        os.makedirs(BIN, exist_ok=True)
        rc, out = sh(["go", "build", "-o", tgt, "."], cwd=src, env=goenv(), timeout=600)
        if rc != 0:
            raise SystemExit("cannot build go2lean:\n" + out)
    return tgt


def regen():
    """Regenerate lean/F3/Gen from /repo's working tree: tools/go2lean/targets.json -> Gen/Core.lean
    (namespace F3.Gen) and every tools/go2lean/targets.d/<Name>.json -> Gen/<Name>.lean (namespace
    F3.Gen.<Name>). Returns (ok, message)."""
    tool = build_go2lean()
    gen = os.path.join(LEAN, "F3", "Gen")
    os.makedirs(gen, exist_ok=True)
    jobs = [(os.path.join(VERIF, "tools", "go2lean", "targets.json"), "Core", "F3.Gen")]
    for f in sorted(glob.glob(os.path.join(VERIF, "tools", "go2lean", "targets.d", "*.json"))):
        n = os.path.splitext(os.path.basename(f))[0]
        jobs.append((f, n, "F3.Gen." + n))
    ok_all, msgs = True, []
    del FAILED_GEN[:]
    for cfg, name, ns in jobs:
        out_path = os.path.join(gen, name + ".lean")
        tmp = out_path + ".new"
        if os.path.exists(tmp):
            os.remove(tmp)
        rc, out = sh([tool, REPO, cfg, tmp, ns])
        if rc != 0 or not os.path.exists(tmp):
            if os.path.exists(out_path):
                os.remove(out_path)
            ok_all = False
            msgs.append(out.strip())
            FAILED_GEN.append((cfg, name, ns))
            continue
        # keep mtime stable when nothing changed so lake does not rebuild
        if os.path.exists(out_path) and open(out_path).read() == open(tmp).read():
            os.remove(tmp)
        else:
            os.replace(tmp, out_path)
    return ok_all, "; ".join(msgs)


FAILED_GEN = []


def regen_fallback():
    """The translator refused the working tree for some target files (a broken obligation, already recorded).
    So that the *search for a failing input* can still run the drivers, regenerate those files from the source
    as last committed (`git archive HEAD` of the repository under check, extracted to a scratch directory
    outside /repo and /verif and removed again). Never used to discharge an obligation: prove() has already
    failed the build by then."""
    if not FAILED_GEN:
        return False
    tool = build_go2lean()
    gen = os.path.join(LEAN, "F3", "Gen")
    scratch = "/var/tmp/verif-headsrc-%d" % os.getpid()
    shutil.rmtree(scratch, ignore_errors=True)
    os.makedirs(scratch)
    done = False
    try:
        p1 = subprocess.run("git -C %s archive HEAD | tar -x -C %s" % (REPO, scratch), shell=True,
                            stdout=subprocess.PIPE, stderr=subprocess.STDOUT, text=True)
        if p1.returncode != 0:
            return False
        done = True
        for cfg, name, ns in list(FAILED_GEN):
            out_path = os.path.join(gen, name + ".lean")
            rc, out = sh([tool, scratch, cfg, out_path, ns])
            if rc != 0 or not os.path.exists(out_path):
                done = False
    finally:
        shutil.rmtree(scratch, ignore_errors=True)
    return done


def theorems_of(prop):
    """Names of the theorems stated in lean/F3/Props/<prop>.lean (namespace F3.Props.<prop>)."""
    path = os.path.join(LEAN, "F3", "Props", prop + ".lean")
    src = open(path).read()
    src = strip_comments(src)
    names = re.findall(r"^\s*theorem\s+([A-Za-z_][A-Za-z0-9_'.]*)", src, flags=re.M)
    return names


def strip_comments(src):
    src = re.sub(r"/-.*?-/", "", src, flags=re.S)
    src = re.sub(r"--.*", "", src)
    return src


def forbidden_hits():
    hits = []
    for f in glob.glob(os.path.join(LEAN, "F3", "**", "*.lean"), recursive=True) + \
            glob.glob(os.path.join(LEAN, "Driver", "*.lean")):
        body = strip_comments(open(f).read())
        body = re.sub(r'"(?:[^"\\\n]|\\.)*"', '""', body)  # string literals are not proof text
        for i, line in enumerate(body.splitlines(), 1):
            if FORBIDDEN.search(line):
                hits.append("%s: %s" % (os.path.relpath(f, VERIF), line.strip()))
    return hits


def lake_build(targets, timeout=3000):
    rc, out = sh(["lake", "build"] + targets, cwd=LEAN, timeout=timeout)
    return rc, out


def prove(prop, extra_modules=(), leanchecker=False):
    """Regenerate, build F3.Props.<prop>, audit axioms. Returns dict."""
    res = {"prop": prop, "obligations": 0, "discharged": 0, "theorems": [], "failed": [],
           "build_ok": False, "translator_ok": True, "messages": []}
    with Lock():
        gen_lakefile()
        ok, msg = regen()
        if not ok:
            res["translator_ok"] = False
            res["messages"].append("translator: " + msg)
        names = theorems_of(prop)
        res["obligations"] = len(names)
        mod = "F3.Props." + prop
        rc, out = lake_build([mod] + list(extra_modules))
        if not ok and rc == 0:
            # the files the translator refused are not among this property's imports: not its obligation
            res["translator_ok"] = True
            res["messages"][-1] = "note: translator refused targets this property does not import (" + msg[:160] + ")"
        if not ok:
            if regen_fallback():
                res["messages"].append("search only: refused Gen files regenerated from the committed source (HEAD)")
        if rc != 0:
            errs = [l for l in out.splitlines() if l.startswith("error:")]
            res["messages"] += errs[:12]
            # which theorems still check? build each remaining obligation individually is not possible
            # within one file; report the file as broken and name the first failing positions.
            res["failed"] = names
            return res
        res["build_ok"] = True
        audit_dir = os.path.join(LEAN, "F3", "Audit")
        os.makedirs(audit_dir, exist_ok=True)
        audit = os.path.join(audit_dir, prop + ".lean")
        with open(audit, "w") as fh:
            fh.write("import %s\n" % mod)
            for n in names:
                fh.write("#print axioms F3.Props.%s.%s\n" % (prop, n))
        rc, out = sh(["lake", "env", "lean", audit], cwd=LEAN, timeout=1200)
        if rc != 0:
            res["messages"].append("audit failed: " + out[-400:])
            res["failed"] = names
            return res
        found = {}
        for m in re.finditer(r"'F3\.Props\.%s\.([^']+)' (does not depend on any axioms|depends on axioms: \[([^\]]*)\])" % prop, out.replace("\n ", " ")):
            axs = set(a.strip() for a in (m.group(3) or "").split(",") if a.strip())
            found[m.group(1)] = axs
        for n in names:
            if n in found and found[n] <= STD_AXIOMS:
                res["discharged"] += 1
                res["theorems"].append({"name": n, "axioms": sorted(found[n])})
            else:
                res["failed"].append(n)
                res["messages"].append("theorem %s: axioms %s" % (n, sorted(found.get(n, ["<not found>"]))))
        hits = forbidden_hits()
        if hits:
            res["messages"] += ["forbidden token: " + h for h in hits[:5]]
            res["failed"].append("<forbidden-token>")
        if leanchecker and not res["failed"]:
            rc, out = sh(["lake", "env", "leanchecker", mod], cwd=LEAN, timeout=3000)
            res["leanchecker"] = (rc == 0)
            if rc != 0:
                res["failed"].append("<leanchecker>")
                res["messages"].append("leanchecker: " + out[-300:])
    return res


def gen_lakefile():
    """lakefile.toml is generated: one core-only lean_exe per Driver/<Area>.lean (each has its own `main`),
    so that one area's breakage never takes another area's driver down."""
    areas = sorted(os.path.splitext(os.path.basename(f))[0] for f in glob.glob(os.path.join(LEAN, "Driver", "*.lean")))
    areas = [a for a in areas if a != "Util"]
    txt = 'name = "f3"\nversion = "0.1.0"\ndefaultTargets = ["F3"]\n\n[[lean_lib]]\nname = "F3"\n\n[[lean_lib]]\nname = "Driver"\n'
    for a in areas:
        txt += '\n[[lean_exe]]\nname = "f3d_%s"\nroot = "Driver.%s"\n' % (a.lower(), a)
    path = os.path.join(LEAN, "lakefile.toml")
    if not os.path.exists(path) or open(path).read() != txt:
        with open(path, "w") as fh:
            fh.write(txt)
    return areas


def build_driver(area):
    """Builds the compiled driver of one area: lean/Driver/<Area>.lean -> exe f3d_<area>."""
    with Lock():
        gen_lakefile()
        rc, out = lake_build(["f3d_" + area.lower()])
        if rc != 0:
            return None, out
    return os.path.join(LEAN, ".lake", "build", "bin", "f3d_" + area.lower()), ""


def build_harness(name, race=False):
    """go build (tag verif, add-only overlay) from /repo's working tree. Returns (path|None, output)."""
    with Lock():
        ov = gen_overlay(name)
        os.makedirs(BIN, exist_ok=True)
        # one binary per invoking process: concurrent checks (possibly against different trees via VERIF_REPO)
        # must never run each other's build
        tgt = os.path.join(BIN, "%s%s.%d" % (name, "_race" if race else "", os.getpid()))
        cmd = ["go", "build", "-tags", "verif", "-overlay", ov, "-o", tgt]
        if race:
            cmd.append("-race")
        cmd.append("./internal/verifh/cmd/" + name)
        if os.path.exists(tgt):
            os.remove(tgt)
        rc, out = sh(cmd, cwd=REPO, env=goenv(), timeout=3000)
        if rc != 0:
            return None, out
        return tgt, out


def parse_driver(out):
    st = {"lines": 0, "ok": 0, "diffs": 0, "oracle_fail": 0, "bad": 0, "hist": {}, "messages": [], "summary": False}
    for l in out.splitlines():
        if l.startswith("SUMMARY "):
            st["summary"] = True
            m = re.match(r"SUMMARY lines=(\d+) ok=(\d+) diffs=(\d+) oracle_fail=(\d+) bad=(\d+) hist: ?(.*)", l)
            if m:
                st["lines"], st["ok"], st["diffs"], st["oracle_fail"], st["bad"] = (int(m.group(i)) for i in range(1, 6))
                for kv in m.group(6).split():
                    k, _, v = kv.rpartition("=")
                    st["hist"][k] = int(v)
        elif l.startswith("ORACLE-FAIL "):
            # keep (a bounded prefix of) every oracle failure: known findings are filtered later by signature,
            # and a different violation must not be lost behind many known ones
            if len(st["messages"]) < 50000:
                st["messages"].append(l[:600])
        elif l.startswith(("DIFF ", "BAD ")):
            if sum(1 for m in st["messages"] if not m.startswith("ORACLE-FAIL")) < 300:
                st["messages"].append(l[:600])
    return st


def distinct_lines(path, nontrivial=None, sample_n=4):
    """Counts distinct (non-comment) lines of a harness log that match `nontrivial` (regex or None)."""
    seen = set()
    total = 0
    samples = []
    rx = re.compile(nontrivial) if nontrivial else None
    with open(path, errors="replace") as fh:
        for line in fh:
            line = line.rstrip("\n")
            if not line or line.startswith("#"):
                continue
            total += 1
            if rx is not None and not rx.search(line):
                continue
            h = hashlib.blake2b(line.encode(), digest_size=8).digest()
            if h not in seen:
                seen.add(h)
                if len(samples) < sample_n or (len(seen) % 9973 == 0 and len(samples) < 3 * sample_n):
                    samples.append(line[:400])
    return total, len(seen), samples


class Ctx:
    def __init__(self, prop, tier, seed, replay=None):
        self.prop = prop
        self.tier = tier
        self.seed = seed
        self.replay = replay
        self.t0 = time.time()
        self.violations = []  # (message, replay_path, found_input)
        self.known = []
        self.streams = []
        self.proofs = []
        os.makedirs(WORK, exist_ok=True)
        os.makedirs(os.path.join(VERIF, "evidence"), exist_ok=True)
        self.findings = load_findings()

    # -- proof -------------------------------------------------------------------------------
    def prove(self, prop=None, **kw):
        pr = prove(prop or self.prop, leanchecker=(self.tier == "thorough"), **kw)
        self.proofs.append(pr)
        log("[%s] proof: %d/%d theorems discharged%s" % (self.prop, pr["discharged"], pr["obligations"],
                                                        "" if not pr["messages"] else " :: " + " | ".join(pr["messages"][:4])))
        return pr

    # -- correspondence ----------------------------------------------------------------------
    def correspond(self, harness, area, args=(), env=None, tag=None, nontrivial=None, timeout=3000,
                   seed=None, tier=None, race=False, driver_args=(), oracle_filter=None, diff_filter=None):
        """Build + run the harness, pipe its log into the driver. Returns stream dict."""
        tag = tag or harness
        st = {"harness": harness, "area": area, "tag": tag, "build_ok": False, "ran": False,
              "oracle_filter": oracle_filter, "diff_filter": diff_filter}
        self.streams.append(st)
        binp, out = build_harness(harness, race=race)
        if binp is None:
            st["build_output"] = out[-3000:]
            log("[%s] harness %s does not build:\n%s" % (self.prop, harness, out[-1500:]))
            return st
        st["build_ok"] = True
        driver, dout = build_driver(area)
        if driver is None:
            st["build_ok"] = False
            st["build_output"] = dout[-3000:]
            log("[%s] driver for area %s does not build:\n%s" % (self.prop, area, dout[-1500:]))
            return st
        e = goenv()
        e["VERIF_SEED"] = str(self.seed if seed is None else seed)
        e["VERIF_TIER"] = tier or self.tier
        e["GOMEMLIMIT"] = "12GiB"
        e.update(env or {})
        logp = os.path.join(WORK, "%s.%s.%s.log" % (self.prop, tag, e["VERIF_SEED"]))
        t0 = time.time()
        with open(logp, "w") as fh:
            try:
                p = subprocess.run([binp] + list(args), env=e, stdout=fh, stderr=subprocess.PIPE, text=True,
                                   timeout=timeout, cwd=WORK)
                st["harness_rc"] = p.returncode
                st["harness_stderr"] = p.stderr[-2000:]
            except subprocess.TimeoutExpired:
                st["harness_rc"] = -9
                st["harness_stderr"] = "timeout"
        st["harness_s"] = round(time.time() - t0, 2)
        st["log"] = logp
        try:
            os.remove(binp)
        except OSError:
            pass
        st["ran"] = True
        t0 = time.time()
        with open(logp) as fh:
            rc, dout = sh([driver] + list(driver_args), stdin=fh, timeout=timeout)
        st["driver_rc"] = rc
        st["driver_s"] = round(time.time() - t0, 2)
        st.update(parse_driver(dout))
        if not st["summary"]:
            st["messages"].append("driver produced no summary: " + dout[-500:])
        total, distinct, samples = distinct_lines(logp, nontrivial)
        st["total_lines"], st["distinct_nontrivial"], st["samples"] = total, distinct, samples
        log("[%s] %s seed=%s: %d lines, ok=%d diffs=%d oracle_fail=%d bad=%d harness_rc=%s (%.1fs+%.1fs)" % (
            self.prop, tag, e["VERIF_SEED"], st["lines"], st["ok"], st["diffs"], st["oracle_fail"], st["bad"],
            st["harness_rc"], st["harness_s"], st["driver_s"]))
        for m in st["messages"][:6]:
            log("    " + m[:300])
        if st["harness_rc"] != 0:
            log("    harness stderr: " + st["harness_stderr"][-600:])
        return st

    # -- outcome -----------------------------------------------------------------------------
    def write_replay(self, name, payload):
        d = os.path.join(VERIF, "replays", self.prop)
        os.makedirs(d, exist_ok=True)
        path = os.path.join(d, name + ".json")
        with open(path, "w") as fh:
            json.dump(payload, fh, indent=1)
        return os.path.relpath(path, VERIF)

    def known_finding(self, message):
        for f in self.findings:
            if f.get("property") == self.prop and f.get("status") == "known" and re.search(f["signature"], message):
                return f
        return None

    def finish(self, rule, trusted_base, assumptions=(), search=None, extra_cov=None, partial=None):
        """Decide the outcome, write evidence, print VIOLATION / KNOWN-FINDING lines, return exit code."""
        oracle_msgs, diff_msgs, broken = [], [], []
        for st in self.streams:
            if not st.get("build_ok"):
                broken.append("harness %s does not build against the working tree" % st["harness"])
                continue
            if st.get("harness_rc", 0) != 0:
                broken.append("harness %s exited with %s: %s" % (st["harness"], st.get("harness_rc"), st.get("harness_stderr", "")[-300:]))
            if not st.get("summary"):
                broken.append("driver gave no summary for %s" % st["tag"])
            for m in st.get("messages", []):
                if m.startswith("ORACLE-FAIL"):
                    # a shared harness evaluates the oracles of several properties; each check only
                    # answers for its own (the others are reported by their own checks)
                    if st.get("oracle_filter") and not re.search(st["oracle_filter"], m):
                        st.setdefault("foreign_oracle_fails", []).append(m[:300])
                        # the sibling property's oracle failed on a call on which model and implementation also
                        # differ: the correspondence this property relies on is broken too
                        if ";; ALSO-DIFF" in m:
                            diff_msgs.append((st, "DIFF " + m.split(";; ALSO-DIFF", 1)[1].strip()[:500] + " :: " + m[:200]))
                        continue
                    oracle_msgs.append((st, m))
                else:
                    # a stream borrowed from another area for one kind of line only answers for model/impl
                    # differences on those lines (the rest belongs to that area's own properties)
                    if st.get("diff_filter") and not re.search(st["diff_filter"], m):
                        st.setdefault("foreign_diffs", []).append(m[:300])
                        continue
                    diff_msgs.append((st, m))
            if st.get("bad", 0):
                broken.append("unparseable lines in %s" % st["tag"])
        for pr in self.proofs:
            if not pr["translator_ok"]:
                broken.append("translator obligation broken: " + "; ".join(pr["messages"][:3]))
            if pr["failed"]:
                broken.append("proof obligations of %s no longer check: %s" % (pr["prop"], ", ".join(pr["failed"][:8])))
        # known findings filter
        unknown_oracle = []
        for st, m in oracle_msgs:
            kf = self.known_finding(m)
            if kf:
                if kf["id"] not in [k["id"] for k in self.known]:
                    self.known.append(kf)
            else:
                unknown_oracle.append((st, m))
        nviol = 0
        if unknown_oracle:
            st, m = unknown_oracle[0]
            rp = self.write_replay("oracle-%s-seed%s" % (st["tag"], self.seed), {
                "property": self.prop, "kind": "property fails on the implementation's own observation",
                "seed": self.seed, "tier": self.tier, "harness": st["harness"], "area": st["area"],
                "failing_lines": [x[1] for x in unknown_oracle[:20]],
                "reproduce": "VERIF_SEED=%s ./check %s --tier %s" % (self.seed, self.prop, self.tier)})
            print("VIOLATION property=%s replay=%s" % (self.prop, rp), flush=True)
            nviol = len(unknown_oracle)
        elif broken or diff_msgs:
            # the property is no longer shown to hold: search for a failing input
            found = None
            if search is not None:
                log("[%s] proof/correspondence broken; searching for a failing input ..." % self.prop)
                found = search(self)
                if found:
                    # a listed known finding is not a failing input for this broken obligation
                    found = [m for m in found if not self.known_finding(m)] or None
            payload = {"property": self.prop, "seed": self.seed, "tier": self.tier,
                       "broken": broken, "differences": [m for _, m in diff_msgs[:20]]}
            if found:
                payload["kind"] = "failing input found by search"
                payload["failing_lines"] = found
                rp = self.write_replay("search-seed%s" % self.seed, payload)
                print("VIOLATION property=%s replay=%s" % (self.prop, rp), flush=True)
            else:
                payload["kind"] = "theorem or correspondence no longer checks; no failing input found"
                rp = self.write_replay("broken-seed%s" % self.seed, payload)
                print("VIOLATION property=%s replay=%s no-failing-input-found" % (self.prop, rp), flush=True)
            nviol = max(1, len(diff_msgs))
        for kf in self.known:
            print("KNOWN-FINDING: property=%s %s" % (self.prop, kf["description"]), flush=True)
        self.write_evidence(rule, trusted_base, assumptions, nviol, extra_cov, partial)
        return 1 if nviol else 0

    def write_evidence(self, rule, trusted_base, assumptions, nviol, extra_cov, partial):
        obligations = sum(p["obligations"] for p in self.proofs)
        discharged = sum(p["discharged"] for p in self.proofs)
        evaluations = sum(s.get("lines", 0) for s in self.streams)
        distinct = sum(s.get("distinct_nontrivial", 0) for s in self.streams)
        hist = {}
        for s in self.streams:
            for k, v in s.get("hist", {}).items():
                hist[s["tag"] + ":" + k] = hist.get(s["tag"] + ":" + k, 0) + v
        samples = []
        for s in self.streams:
            samples += s.get("samples", [])[:4]
        samples += [{"theorem": t["name"], "axioms": t["axioms"]} for p in self.proofs for t in p["theorems"][:40]]
        cov = {
            "obligations": obligations, "discharged": discharged,
            "checker_cmd": "cd lean && lake build F3.Props.%s && lake env lean F3/Audit/%s.lean  (#print axioms per theorem)%s" % (
                self.prop, self.prop, "; lake env leanchecker F3.Props.%s" % self.prop if self.tier == "thorough" else ""),
            "trusted_base": TRUSTED_COMMON + list(trusted_base),
            "evaluations": evaluations, "distinct_nontrivial": distinct, "rule": rule,
            "samples": samples or ["<none>"],
            "traces_validated_against_impl": sum(s.get("ok", 0) for s in self.streams),
            "histogram": hist,
            "streams": [{k: s.get(k) for k in ("tag", "harness", "area", "lines", "ok", "diffs", "oracle_fail", "bad",
                                                "harness_s", "driver_s", "harness_rc")} for s in self.streams],
            "theorems": [t["name"] for p in self.proofs for t in p["theorems"]],
            "unproved_or_partial": partial or [],
            "known_findings_hit": [k["id"] for k in self.known],
        }
        if extra_cov:
            cov.update(extra_cov)
        ev = {"property_id": self.prop, "tier": self.tier, "seed": self.seed, "level": "proof", "coverage": cov,
              "assumptions": list(assumptions), "wall_s": round(time.time() - self.t0, 2), "violations": nviol}
        with open(os.path.join(VERIF, "evidence", self.prop + ".json"), "w") as fh:
            json.dump(ev, fh, indent=1)


def load_findings():
    p = os.path.join(VERIF, "known_findings.json")
    if not os.path.exists(p):
        return []
    return json.load(open(p)).get("findings", [])
