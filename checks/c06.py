"""C06 — termination. Partial by nature: per-phase progress lemmas on the model (Props/C06) + liveness runs
(modes live/sync: no loss between honest nodes, adversary silent after stabilisation) measured against the bound."""
from checks import gpbft_common as g


def run(ctx):
    ctx.prove()
    g.network(ctx, "C06-")
    return ctx.finish(
        rule=g.RULE + " Oracle C06 (modes live, sync; runs not cut by the event cap): every honest participant decides, within 40 "
                      "rounds of the round current at stabilisation — within 6 when the run's adversary never acted (`byz=0` "
                      "on the end line: crash-silent members only); synchronous unanimous runs decide in round 0.",
        trusted_base=g.TRUSTED,
        assumptions=["real-time delivery and hash-dependent ticket order are not carried by any executable model: the round "
                     "bound is validated on runs, not proved"],
        search=g.search("C06-"),
        partial=["termination: bounded-round termination after stabilisation is validated by live/sync runs only; "
                 "the theorems are the per-phase progress lemmas"],
    )
