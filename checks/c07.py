"""C07 — protocol discipline. Theorems on the model (Props/C07) + per-op oracles on every honest participant of every
network run."""
from checks import gpbft_common as g


def run(ctx):
    ctx.prove()
    g.network(ctx, "C07-")
    return ctx.finish(
        rule=g.RULE + " Oracle C07 per op: one broadcast per (round, phase); honest messages valid at peers; progress monotone; no "
                      "internal error / panic; round-0 PREPARE = longest input prefix with a strong QUALITY quorum among delivered "
                      "votes; best-ticket CONVERGE value adopted when it is a prefix of the QUALITY proposal; no COMMIT-bottom with a "
                      "PREPARE quorum for the proposal, nor before timeout unless the quorum is impossible; voted values are prefixes "
                      "of the input or quorum-backed.",
        trusted_base=g.TRUSTED,
        assumptions=["delivered messages passed the real validator (C05): MsgValid, the hypothesis of no_internal_error_or_panic(_participant)",
                     "the instance is started once, before anything else (Participant.beginInstance); non-empty input; total scaled "
                     "power > 0 (each shown necessary by a decide-checked example in Props/C07)"],
        search=g.search("C07-"),
    )
