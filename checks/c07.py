"""C07 — protocol discipline. Theorems on the model (Props/C07) + per-op oracles on every honest participant of every
network run."""
from checks import gpbft_common as g


# clauses of the property that are (so far) theorems about single calls on arbitrary states, not about runs; the per-op
# oracles judge them on every honest participant of every run. Updated when Props/C07 §RunLevel covers them.
PARTIAL = ["run-level theorems: Props/C07 §RunLevel for the instance-level `run`, §RunLevelParticipant for the participant API "
           "(queue, drain through ReceiveMany in any map order) and per instance of multi-instance runs (emitted_valid_participant/"
           "_multi, prepare0_participant/_multi over the QUALITY votes counted while in QUALITY, candidates_complete_*, "
           "converge_adopts_best_ticket_*), Eff.rebroadcast expanded against the own earlier broadcasts (wire_valid_*); the "
           "justification's own instance id / supplemental data / aggregate signature are not in the model (doc-comment of "
           "§RunLevelParticipant) — the per-op oracles judge those on every honest participant of every run",
           "candidates_complete holds for CONVERGE/PREPARE/COMMIT only: a participant pulled from QUALITY straight to DECIDE "
           "(skipToDecide / COMMIT quorum) keeps an incomplete candidate set — harmless (candidates are only read by "
           "tryConverge, DECIDE never returns there); kept as a decide-checked example",
           "MsgValid carries no ticket, instance id or supplemental data (consumed as data / booleans from the harness)"]


def run(ctx):
    ctx.prove()
    g.network(ctx, "C07-")
    return ctx.finish(
        rule=g.RULE + " Oracle C07 per op: one broadcast per (round, phase); honest messages valid at peers; progress monotone; no "
                      "internal error / panic; round-0 PREPARE = longest input prefix with a strong QUALITY quorum among delivered "
                      "votes; best-ticket CONVERGE value adopted when it is a prefix of the QUALITY proposal; no COMMIT-bottom with a "
                      "PREPARE quorum for the proposal, nor before timeout unless the quorum is impossible; voted values are prefixes "
                      "of the input or quorum-backed.",
        trusted_base=g.TRUSTED,
        assumptions=["delivered messages passed the real validator (C05): MsgValid, the hypothesis of no_internal_error_or_panic(_participant)",
                     "the instance is started once, before anything else (Participant.beginInstance); non-empty input; total scaled "
                     "power > 0 (each shown necessary by a decide-checked example in Props/C07)",
                     "reading of 'internal error': a validated message for another base, other supplemental data, another "
                     "instance, or arriving after termination is REFUSED by gpbft.Receive with ErrValidationWrongBase / "
                     "WrongSupplement / … — Participant.ReceiveMessage wraps every Receive error, these included, in "
                     "ErrReceivedInternalError (participant.go:178), so errors.Is(err, ErrReceivedInternalError) holds for them "
                     "too; theorem and oracle count these four refusals as validation outcomes the validator cannot decide "
                     "without the instance's input (the harness classifies WrongBase/WrongSupplement first), and everything "
                     "else wrapped in ErrReceivedInternalError as a violation"],
        search=g.search("C07-"),
        partial=PARTIAL,
    )
