"""C17 — snapshot export/import reproduces the store; malformed snapshots are rejected.
h_store c17: stores with first > 0 and evolving tables crossing checkpoints; every export end point;
re-import (with/without manifest, lowered and default period); truncation at every byte (thorough) or at
all block edges + samples (quick); block-level corruptions (gap, dup, reorder, surplus, header and
manifest disagreement, junk, bad deltas incl. the compensating pair of S9)."""

NONTRIVIAL = r"^(export|exportlatest|import|iobs|icons|trunc) "


def search(ctx):
    st = ctx.correspond("h_store", "Store", args=("c17",), tag="search", seed=ctx.seed + 101, tier="quick",
                        env={"VERIF_STORE_SNAP": "40"}, nontrivial=NONTRIVIAL)
    bad = [m for m in st.get("messages", []) if m.startswith("ORACLE-FAIL")]
    return bad[:20] or None


def run(ctx):
    ctx.prove()
    st = ctx.correspond("h_store", "Store", args=("c17",), tag="c17", nontrivial=NONTRIVIAL)
    return ctx.finish(
        rule="h_store c17: export lines (one real ExportSnapshot each, with digest check and the decoded block "
             "structure), import lines (one real import of a well-formed or corrupted byte stream into an empty "
             "datastore, followed by the full observation of the imported store and per-instance table/commitment "
             "consistency), trunc lines (one import of a byte prefix each).",
        trusted_base=["hand model F3.Store of snapshot.go (importer loop, checkpoint/end CID checks exactly as coded)",
                      "framing: a block = uvarint length + body; io.ReadFull / binary.ReadUvarint EOF conventions as modelled "
                      "(Tail); CBOR decoding of a complete block trusted (C14)",
                      "blake2b-256 / multihash (digest compared by the harness with an independent hash of the bytes)"],
        assumptions=["import into an empty datastore; snapshot certificates are not signature-checked by the importer (nor by the store)",
                     "header version field is not part of the property"],
        search=search,
        partial=["import_rejects_bad_delta_partial: rejection only when the running table differs at a checkpoint or at "
                 "the end (S9: compensating corruptions in between are accepted — import_accepts_compensating_witness)"],
        extra_cov={"exhaustive_truncation": ctx.tier == "thorough"},
    )
