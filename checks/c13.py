"""C13 — two-stage (partial, then full) validation equals one-shot validation; strip/complete round trip.
Theorems on F3.Validator (partially / fully / complete / strip / validate); h_validate runs both production paths on
the same inputs with completion performed by pmsg's own statements (inferJustificationVoteValue via accessor)."""

NONTRIVIAL = r"^(t|tt|s|h) "


def search(ctx):
    bad = []
    for sd in (ctx.seed + 101, ctx.seed + 202):
        st = ctx.correspond("h_validate", "Validate", tag="search", seed=sd,
                            env={"VERIF_VALIDATE_MODE": "c13", "VERIF_VALIDATE_WORLDS": "150"})
        bad += [m for m in st.get("messages", []) if m.startswith("ORACLE-FAIL")]
        if bad:
            break
    return bad[:20] or None


def run(ctx):
    ctx.prove()
    worlds = "1400" if ctx.tier == "thorough" else "100"
    ctx.correspond("h_validate", "Validate", nontrivial=NONTRIVIAL,
                   env={"VERIF_VALIDATE_MODE": "c13", "VERIF_VALIDATE_WORLDS": worlds})
    return ctx.finish(
        rule="h_validate (mode c13): t = one message through PartiallyValidateMessage (announced key: matching / other chain / "
             "zero / junk; placeholder values as stripped or tampered), completion with a chain (matching or not) by the "
             "production statements, FullyValidateMessage, and ValidateMessage of the completed message, on a warm participant "
             "sharing one cache between the paths and on fresh participants; s = ToPartialGMessage + completion of a full "
             "message compared field by field with the original; h = the host flow of validatePubsubMessage with the REAL "
             "PartialMessageManager.CompleteMessage over a real (unstarted) chain exchange that has or has not seen the chain: "
             "completed => ValidateMessage, else PartiallyValidateMessage; plus the same message through partial + completion + "
             "full when the chain is discovered afterwards (oracle: both arrival orders give the same verdict). The driver replays F3.Validator.partially / complete / fully / "
             "validate / strip and evaluates: two-stage accept => key X = K and one-shot accept; one-shot accept and key match "
             "and well-formed placeholders and relevant at stage one => two-stage accept; equal verdict class at equal "
             "progress; round trip for valid messages. distinct_nontrivial = distinct t/s lines.",
        trusted_base=[
            "as C05 (symbolic cryptography, chain key = chain, cache key pre-images)",
            "completion in the discovered-chain path is exercised through the two statements PartialMessageManager's loop "
            "executes (Vote.Value = chain; inferJustificationVoteValue) via a verif-tagged accessor; CompleteMessage itself is "
            "the real method over a real chain exchange fed synchronously (no pubsub traffic, loops not started)",
        ],
        assumptions=["uint64 fields are < 2^64"],
        search=search,
        partial=[],
    )
