"""C04 — certificate chains verify only if quorum-signed and linked; power-table deltas are exact and canonical.

Theorems (lean/F3/Props/C04.lean) are about the executable model lean/F3/Model/Certs.lean; h_certs drives the real
certs.ValidateFinalityCertificates / MakePowerTableDiff / ApplyPowerTableDiffs on histories signed with the FakeBackend
over evolving power tables, a per-field corruption stream and power-table pairs / near-valid deltas; the driver
evaluates the property (specPrefix / certValidB / makeDiff / canon as specification) on the implementation's results
and compares them with the model."""


def search(ctx):
    found = []
    for seed in (ctx.seed + 101, ctx.seed + 202):
        st = ctx.correspond("h_certs", "Certs", tag="search", seed=seed,
                            env={"VERIF_CERTS_HIST": "900", "VERIF_CERTS_PAIRS": "5000"})
        found += [m for m in st.get("messages", []) if m.startswith("ORACLE-FAIL")]
        if found:
            break
    return found[:20] or None


def run(ctx):
    ctx.prove()
    env = {}
    if ctx.tier == "quick":
        env = {"VERIF_CERTS_HIST": "1000", "VERIF_CERTS_PAIRS": "5000"}
    st = ctx.correspond("h_certs", "Certs", nontrivial=r"^(val|apply|mkapply) ", env=env)
    if ctx.tier == "thorough":
        for k in (1, 2):
            ctx.correspond("h_certs", "Certs", nontrivial=r"^(val|apply|mkapply) ", seed=ctx.seed * 1000 + k,
                           tag="h_certs.s%d" % k)
    return ctx.finish(
        rule="h_certs: every `val` line is one call of the real ValidateFinalityCertificates on a certificate sequence "
             "(valid history over evolving tables, or one with a single/multi-field corruption, splice, reorder, gap, "
             "wrong caller input); every `apply`/`mkapply` line one call of ApplyPowerTableDiffs / MakePowerTableDiff "
             "on a table pair or near-valid delta. distinct_nontrivial = distinct such lines (dictionary lines excluded).",
        trusted_base=[
            "hand model F3.Certs of certs.go (tied by h_certs); F3.Power scaling model (C08); generated isStrongQuorum (C08)",
            "symbolic cryptography: FakeBackend aggregate = token (signer index/key pairs, payload); payload bytes "
            "injective in (network, instance, round, phase, supplemental data, chain) (C14); sha256 collision-free",
            "power-table CID = identity of the serialized table (blake2b collision-free); interning of keys/tipset keys/CIDs "
            "by the harness (equal bytes <=> equal id)",
            "bitfield iteration yields strictly increasing indices (go-bitfield; the model refuses other lists: VErr.signerOrder, the parser treats them as unparseable)",
        ],
        assumptions=[
            "powers are arbitrary-precision integers (go-state-types/big)",
            "MakePowerTableDiff is only compared on new tables with distinct ids (the Go sort of equal ids is unspecified)",
        ],
        search=search,
        partial=[],
    )
