"""C18 — chain exchange: admitted chains are retrievable by key, wanted chains are kept.

Theorems (lean/F3/Props/C18.lean) are about F3.ChainX (model of chainexchange/pubsub.go) over F3.Lru
(model of hashicorp/golang-lru/v2). h_chainx drives the real PubSubChainExchange: the validator and the
subscription-loop body through a synchronous in-package feed accessor, the real Broadcast, lookups and
prunes; every line carries the implementation's answer and a dump of the caches it touched. The driver
replays each line through the same Lean definitions, compares, and evaluates the property oracle
(F3.ChainX.Spec: a tracker over the observable history) on the implementation's own answers. A second
stream runs three libp2p hosts over mocknet with the real Start loops (black box)."""

NONTRIVIAL = r"^(get|feed|bcast|prune|bb|conc) "


def search(ctx):
    """Failing-input search after a proof/correspondence break: other seeds, wider tier, black box."""
    found = []
    for seed in (ctx.seed + 101, ctx.seed + 202):
        st = ctx.correspond("h_chainx", "ChainX", tag="search", seed=seed, tier="thorough",
                            env={"VERIF_CHAINX_HISTORIES": "400", "VERIF_CHAINX_SEEDS": "1"}, nontrivial=NONTRIVIAL)
        found += [m for m in st.get("messages", []) if m.startswith("ORACLE-FAIL")]
        if found:
            break
    return found[:20] or None


def run(ctx):
    ctx.prove()
    thorough = ctx.tier == "thorough"
    # one process: sync histories (thorough: 2 derived seeds) followed by the 3-host black box
    streams = [ctx.correspond("h_chainx", "ChainX", tag="sync+blackbox", nontrivial=NONTRIVIAL)]
    if thorough:
        # goroutine-level sub-claim (partial): black box again and many goroutines through the same entry
        # points, both under the race detector
        streams.append(ctx.correspond("h_chainx", "ChainX", args=["racy"], tag="race", nontrivial=NONTRIVIAL, race=True))
    hist = {}
    for s in streams:
        for k, v in s.get("hist", {}).items():
            hist[k] = hist.get(k, 0) + v
    return ctx.finish(
        rule="h_chainx sync: one line = one call of the real API (GetChainByInstance / Broadcast+cacheAsWantedChain / "
             "RemoveChainsByInstance) or one pubsub payload pushed through validatePubSubMessage + cacheAsDiscoveredChain, "
             "with the caches of the touched instance dumped (keys in LRU order, placeholder flags, value chains) and "
             "compared with the model state; lru lines: one op of the real hashicorp cache vs F3.Lru; bb lines: one "
             "broadcast / flood round over three mocknet hosts with the real Start loops; conc lines (thorough, -race): "
             "3200 concurrent ops of 8 goroutines on one subject. distinct_nontrivial = distinct non-lru lines.",
        trusted_base=[
            "F3.ChainX / F3.Lru hand models, tied by h_chainx (state-level comparison after every op); chain key = chain "
            "(merkle key collision-freeness is C14's theorem; the harness recomputes the real Key() of every returned chain "
            "and of every cached value)",
            "harness accessor chainx_access.go: VerifFeed = registered topic validator + body of the subscription loop; "
            "VerifDrainWanted = body of the second loop of Start; libp2p pubsub delivery is exercised only by the bb stream",
            "decodability of a payload is judged by the subject's own decoder (codec faithfulness is C14)",
        ],
        assumptions=[
            "one op = one lock-protected section; goroutine interleavings of the two loops of Start are exercised only by "
            "the black-box stream and the concurrent phase (both under -race in the thorough tier)",
            "timestamps/clock readings within int64 milliseconds without wrap; instances < 2^64 (the uint64 wrap of "
            "ID+lookahead is modelled)",
        ],
        search=search,
        partial=["goroutine-level atomicity of the two Start loops (runtime; black-box + -race validation only)",
                 "Broadcast dropping the wanted-cache entry when its 100-slot queue is full (not modelled; logged as a warning by the code)"],
        extra_cov={"capacities": "1..8 (wanted, discovered)", "histogram_total": hist},
    )
