"""C20 — certificate polling adapts its cadence. Theorems over predictor.update and the delay line as
regenerated from certexchange/polling; h_poll drives the real predictor, the real Subscriber.poll and the
real Subscriber.run loop (mock clock, fake peers on a libp2p mocknet) and the driver replays every
observation through the model and evaluates the property's executable statements on it."""

NONTRIVIAL = r"^(pupd|poll|catchup|round|loop|stuck|mloop) "


def search(ctx):
    found = []
    for seed in (ctx.seed + 101, ctx.seed + 202):
        st = ctx.correspond("h_poll", "Poll", tag="search", seed=seed, nontrivial=NONTRIVIAL,
                            env={"VERIF_RUN_SCENARIOS": "40", "VERIF_POLL_SCENARIOS": "20"})
        found += [m for m in st.get("messages", []) if m.startswith("ORACLE-FAIL")]
        if found:
            break
    return found[:20] or None


def run(ctx):
    ctx.prove()
    hist = {}
    for part in ("run", "poll", "pred"):
        st = ctx.correspond("h_poll", "Poll", tag="h_poll." + part, nontrivial=NONTRIVIAL, env={"VERIF_POLL_ONLY": part})
        hist.update(st.get("hist", {}))
    rounds = sum(v for k, v in hist.items() if k.startswith("round_"))
    polls = sum(v for k, v in hist.items() if k.startswith("poll_"))
    return ctx.finish(
        rule="h_poll: pupd = one real predictor.update (state reached from newPredictor, or an arbitrary state set "
             "through the accessor); poll = one real Subscriber.poll against 0-4 (thorough: up to 14) fake peers "
             "(honest/lagging/stuck/dead/flaky/evil/empty-claim) with its return value; catchup = one Poller.CatchUp; "
             "round = one timer firing of the real Subscriber.run on the mock clock (position before/after, Since/Until "
             "arguments and results, armed delay); loop = cadence summary of a scenario. distinct_nontrivial = distinct lines.",
        trusted_base=[
            "tools/go2lean translator for predictor.update and the `delay +=` statement (int64/uint64/Duration -> Int, "
            "truncated division, two's-complement cast) — additionally cross-checked line by line against the real "
            "predictor by the pupd stream",
            "hand model F3.Poll.round / pollProgress (loop glue, value returned by poll): tied by h_poll",
            "mock clock of filecoin-project/go-clock; libp2p mocknet as a reliable in-process transport; "
            "harness-side end-of-round signal through the predicted-interval gauge",
        ],
        assumptions=[
            "durations: 0 < min <= max <= 2^58 ns (no-overflow theorem); progress any uint64",
            "closed-loop convergence (SettlesStatement) is validated by execution only: production patterns "
            "steady/jitter/bursty/stalled/resumed x interval settings x peer populations",
        ],
        search=search,
        partial=["SettlesStatement (eventually every wait within a factor two of the period) stays open: it reduces to excluding cycles of a Collatz-like map on the explore distance (search_overshoot_can_grow shows no neighbourhood of the period is absorbing); proved for all parameters: cadence_straddles_period (lim inf interval <= period <= lim sup), no_collapse, no_drift, interval_returns_to_period, closed_loop_holds_period / settles_if_period_hit, settles_unless_exceptional, band_absorbing_unless_exceptional, search_turn_contracts"],
        extra_cov={"rounds_of_real_run_loop": rounds, "real_polls": polls},
    )
