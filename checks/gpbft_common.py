"""Shared by C01, C02, C03, C06, C07: the h_gpbft network harness replayed through the Lean model of
gpbft.go (F3.Instance / Participant), with per-property oracles evaluated by lean/Driver/Gpbft.lean on the
implementation's own observations."""

RULE = ("h_gpbft: one case = one network run of 2..7 real gpbft.Participants (random power tables incl. dust/zero-scaled "
        "members, forking inputs over a common base, < 1/3 scaled-power Byzantine members that equivocate with validly "
        "signed messages, replay/assemble justifications from observed votes, inject foreign-base / foreign-supplement "
        "messages, deliver selectively; scheduler reorders, delays, drops (mode byz), duplicates, fires alarms late; modes "
        "byz/live/sync; mode script = a single real participant with every other member driven by the harness, which holds all "
        "keys: any sequence of validated messages, also ones no < 1/3 adversary could produce — sways, skips, late-binding "
        "rejects from the queue; mode multi = 2-3 consecutive instances without faulty members, a lagging node, "
        "one virtual node per (participant, instance): future-instance queueing, past-instance drops, decision hand-off, "
        "proposals extending the decided chain). One log line = one API call on one honest participant with everything it did through its Host; "
        "each is replayed through F3.Instance.pstep and compared (effects, progress, error class). "
        "distinct_nontrivial = distinct `o` lines that produced an effect or changed progress (regex).")

NONTRIVIAL = r"^o \d+ [AM] \d+ [^|]*\| [^-]"

TRUSTED = [
    "hand model F3.Instance / F3.Instance.PState of gpbft/gpbft.go and participant.go (tied by h_gpbft on every run)",
    "symbolic signatures: sim/signing.FakeBackend treated as an ideal scheme by the harness adversary (own keys + observed signatures only)",
    "ticket ranks consumed as data (ComputeTicketRank is not modelled); timeouts/backoff tables computed by the harness with the repository's float formula",
    "Go map iteration order: queue drain order searched over sender permutations; forwarded-justification signer sets compared up to the choice among stored justifications",
]


def runs(ctx, quick, thorough):
    return str(thorough if ctx.tier == "thorough" else quick)


def network(ctx, prefix, quick=1200, thorough=5000, seeds_thorough=4):
    """Runs the shared stream(s); returns the stream dicts."""
    sts = []
    seeds = [ctx.seed] if ctx.tier != "thorough" else [ctx.seed * 1000 + k for k in range(seeds_thorough)]
    for sd in seeds:
        sts.append(ctx.correspond("h_gpbft", "Gpbft", env={"VERIF_RUNS": runs(ctx, quick, thorough)}, seed=sd,
                                  tag="net" if len(seeds) == 1 else "net%d" % sd, nontrivial=NONTRIVIAL,
                                  oracle_filter=prefix))
    return sts


def search(prefix):
    def f(ctx):
        for k in range(3):
            st = ctx.correspond("h_gpbft", "Gpbft", env={"VERIF_RUNS": "3000"}, seed=ctx.seed * 7919 + k,
                                tag="search%d" % k, oracle_filter=prefix)
            # (a listed known finding is not a failing input for a broken obligation)
            bad = [m for m in st.get("messages", []) if m.startswith("ORACLE-FAIL") and prefix in m
                   and not ctx.known_finding(m)]
            if bad:
                return bad[:20]
        return None
    return f


UNSOUND = r"UNSOUND-ACCEPT|TWOSTAGE-KEY-UNBOUND|TWOSTAGE-UNSOUND|HISTORY-DEPENDENT"


def validation_gate(ctx):
    """The end-to-end theorems (agreement_model, validity_model, decision_wellformed) assume that every delivered
    message satisfies MsgValid; C05.accepted_message_meets_consensus_hypothesis derives that from the validator
    model, so the safety properties also rest on the validator correspondence: both validation paths (one-shot and
    partial -> completion -> full, warm caches) are replayed here and an unsound acceptance on the implementation is
    a violation of the consensus property with that message as the failing input."""
    worlds = "400" if ctx.tier == "thorough" else "40"
    return ctx.correspond("h_validate", "Validate", tag="validate", nontrivial=r"^(v|t|cv|h) ",
                          env={"VERIF_VALIDATE_MODE": "", "VERIF_VALIDATE_WORLDS": worlds}, oracle_filter=UNSOUND)


def power_gate(ctx):
    """Sender eligibility, justification quorums and every threshold of the consensus core read the SCALED power table
    (gpbft/powertable.go). The scaling facts are C08's theorems; their tie to the code is the `scaled` lines of h_quorum
    (big-integer tables of every magnitude, Copy/Add aliasing, order preservation, sum = total), replayed here for the
    properties that rest on them: a table whose scaled powers are not the model's is a failing input for them too."""
    return ctx.correspond("h_quorum", "Quorum", tag="power", nontrivial=r"^scaled ",
                          oracle_filter=r"SCALED-ORDER|scaled |reported total|one scaled power", diff_filter=r":: scaled ")

