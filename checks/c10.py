"""C10 — certificate store operations are crash-atomic at datastore-write granularity.
h_store c10: for every mutating step of every generated history, EVERY crash point (number of completed
datastore writes) is enumerated on a copy of the datastore behind a fault-injecting wrapper; after the
crash the store is reopened with each open variant and fully observed, and the step is retried."""

NONTRIVIAL = r"^(put|open|create|ooc|delall|robs|obs|csave) "


def search(ctx):
    out = []
    for seed in (ctx.seed + 101, ctx.seed + 202):
        st = ctx.correspond("h_store", "Store", args=("c10",), tag="search", seed=seed, tier="quick",
                            env={"VERIF_STORE_CRASH": "120"}, nontrivial=NONTRIVIAL)
        out += [m for m in st.get("messages", []) if m.startswith("ORACLE-FAIL")]
        if out:
            break
    return out[:20] or None


def run(ctx):
    ctx.prove()
    st = ctx.correspond("h_store", "Store", args=("c10",), tag="c10", nontrivial=NONTRIVIAL)
    if ctx.tier == "thorough":
        ctx.correspond("h_store", "Store", args=("c10",), tag="c10-s1", seed=ctx.seed + 7919, nontrivial=NONTRIVIAL)
    cps = sum(s.get("hist", {}).get("crashpoint", 0) + s.get("hist", {}).get("crashpoint:complete", 0) for s in ctx.streams)
    return ctx.finish(
        rule="h_store c10: per mutating step of a history a block cbegin..cend; inside, one `csave k= of=` per crash "
             "point (k completed writes of the step's n), followed by reopen-and-observe lines (robs, one per open "
             "variant) and the retry. The driver checks the write sequence and every post-crash observation against the "
             "model (diff) and that each observation equals the implementation's own observation before or after the "
             "step, is a consistent gap-free history, and that the retry reaches the after-state (oracle).",
        trusted_base=["hand model F3.Store (write sequences exact; tied by h_store: keys and values of every write compared)",
                      "fault-injecting datastore wrapper of the harness: a crash = the failing write and all later ones dropped; "
                      "single-key put/delete atomic; key query order arbitrary (drawn from the PRNG, logged)",
                      "CIDs / certificate bytes interned as in C09"],
        assumptions=["crash = process stop between two datastore writes; no torn single write; datastore itself durable",
                     "retry of CreateStore follows the node's idiom (OpenStore, CreateStore if not initialised)",
                     "reads above the latest pointer (a certificate written by an interrupted Put) are not part of the "
                     "before-or-after observation: the property speaks of instances up to latest"],
        search=search,
        partial=["crash_atomic_deleteAll holds for the repaired open (resumeInner=true); for the pinned tree the negation "
                 "is proved (deleteAll_not_atomic_unfixed)"],
        extra_cov={"exhaustive": True, "crash_points": cps},
    )
