"""C19 — test tooling is faithful. (a) h_sim forges decisions against the real simulator oracle
(validateDecision / NotifyDecision directly, and whole Simulation.Run executions with a forging
adversary); (b) h_inputs compares the real certchain.CertChain with the real node committee derivation
over the same EC backend and certificates. Theorems: F3/Props/C19.lean."""

NT_SIM = r"^(ec notify|ec query|vd|run) "
NT_INP = r"^(cmp|ccv|ccgen|put) "


def search(ctx):
    found = []
    st = ctx.correspond("h_sim", "Sim", tag="search.sim", seed=ctx.seed + 101, nontrivial=NT_SIM,
                        env={"VERIF_SIM_EC": "1500", "VERIF_SIM_RUNS": "500"})
    found += [m for m in st.get("messages", []) if m.startswith("ORACLE-FAIL")]
    if not found:
        st = ctx.correspond("h_inputs", "Inputs", tag="search.inputs", seed=ctx.seed + 101, nontrivial=NT_INP,
                            env={"VERIF_INPUTS_MODE": "c19", "VERIF_INPUTS_NODE": "400", "VERIF_INPUTS_GEN": "80"})
        found += [m for m in st.get("messages", []) if m.startswith("ORACLE-FAIL")]
    return found[:20] or None


def run(ctx):
    ctx.prove()
    hist = {}
    for part in ("run", "ec"):
        st = ctx.correspond("h_sim", "Sim", tag="h_sim." + part, nontrivial=NT_SIM, env={"VERIF_SIM_ONLY": part})
        hist.update(st.get("hist", {}))
    st = ctx.correspond("h_inputs", "Inputs", tag="h_inputs.c19", nontrivial=NT_INP, env={"VERIF_INPUTS_MODE": "c19"})
    hist.update(st.get("hist", {}))
    forged_runs = sum(v for k, v in hist.items() if k.startswith("run_forged") or k.startswith("run_disagree_err"))
    return ctx.finish(
        rule="h_sim: `ec notify`/`vd` = one decision forged by the harness (mostly valid with one or two fields forged: "
             "instance, phase, round, empty value, base look-alikes, signer sets around the 2/3 boundary, signer index "
             "outside the table, aggregate by other signers / over another payload / garbage) given to the real "
             "NotifyDecision / validateDecision; `ec query` = HasCompleted/HasReachedConsensus; `run` = one real "
             "Simulation.Run (1-5 honest gpbft participants, 1-3 instances) in which a harness adversary hands a forged "
             "decision to Host.ReceiveDecision or overwrites an honest participant's record. h_inputs: `cmp` = real "
             "certchain.GetCommittee vs real node GetCommittee for one instance over the same EC tree and certificates; "
             "`ccv` = certchain.Validate of a certificate produced by the node's rules; `ccgen` = certchain.Generate. "
             "distinct_nontrivial = distinct lines.",
        trusted_base=[
            "hand model F3.SimOracle of sim/ec.go, sim/host.go and the loop head of sim/sim.go (tied by h_sim); "
            "symbolic signatures: an aggregate verifies iff it was produced by exactly the claimed signers over exactly "
            "the claimed payload (FakeBackend hashes these; collision-freeness of sha256 assumed)",
            "tools/go2lean for certchain's look-back index and the extracted call sites (sim/ec.go threshold, "
            "consensus_inputs.go look-back expressions)",
            "hand model F3.Inputs.certchainCommittee / getCommittee (tied by h_inputs); the harness's tree EC backend",
        ],
        assumptions=[
            "Run's exit by queue exhaustion skips the final error check: decisions notified during the very last tick "
            "before the message queue drains are outside sim_oracle_sound (stated in the theorem as 'up to the last "
            "check'); unreachable with gpbft participants, which always keep an alarm pending",
            "certchain comparisons are made while EC's head descends from everything finalized (EC contract)",
        ],
        search=search,
        extra_cov={"forged_or_disagreeing_runs_rejected": forged_runs},
    )
