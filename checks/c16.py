"""C16 — certificate exchange serves exact store slices; pollers store only verified certificates.

Theorems (lean/F3/Props/C16.lean) about lean/F3/Model/CertX.lean (serve / clientRecv / poll, the latter on top of C04's
validation model). h_certx runs the real certexchange.Server, Client and polling.Poller over libp2p mocknet: a raw stream
reader that speaks the protocol and decodes what is on the wire, the real client, and a Byzantine responder feeding
forged / reordered / duplicated / truncated / oversized streams and wrong pending instances to the real client and to the
real Poller over a real certstore."""


def search(ctx):
    found = []
    for seed in (ctx.seed + 101, ctx.seed + 202):
        st = ctx.correspond("h_certx", "CertX", tag="search", seed=seed, env={"VERIF_CERTX_BYZ": "300"})
        found += [m for m in st.get("messages", []) if m.startswith("ORACLE-FAIL")]
        if found:
            break
    return found[:20] or None


def run(ctx):
    ctx.prove()
    env = {}
    if ctx.tier == "quick":
        env = {"VERIF_CERTX_BYZ": "260"}
    ctx.correspond("h_certx", "CertX", nontrivial=r"^(wire|client|byz|poll|pnew|pput) ", env=env)
    if ctx.tier == "thorough":
        ctx.correspond("h_certx", "CertX", nontrivial=r"^(wire|client|byz|poll|pnew|pput) ", seed=ctx.seed * 1000 + 1,
                       tag="h_certx.s1")
    return ctx.finish(
        rule="h_certx: `wire` = one request answered by the real Server, read raw off the stream (header + every "
             "certificate decoded, bytes compared with the stored bytes); `client` = the same request through the real "
             "Client; `byz` = the real Client against a scripted Byzantine responder; `poll` = one Poller.Poll against a "
             "Byzantine script or an honest server, with the poller's NextInstance/PowerTable and its store's contents "
             "afterwards; `pnew`/`pput` = poller construction / out-of-band store puts. distinct_nontrivial = distinct such lines.",
        trusted_base=[
            "hand model F3.CertX of server.go / client.go / poller.go (tied by h_certx), on top of the C04 model F3.Certs",
            "certstore as contiguous certificates + derived power tables (C09); go-datastore in-memory map",
            "libp2p mocknet streams as reliable in-process pipes; CBOR decoding of a certificate = identity on the "
            "harness' interned form (C14)",
            "symbolic cryptography and CID interning as in C04",
        ],
        assumptions=[
            "theorems assume instance numbers stay below 2^64 (NoWrap); the wrap-around behaviour itself is covered by the "
            "model and the correspondence (stores ending at 2^64-2, requests at 2^64-1)",
            "the poller is the only writer of its store during a poll (sequential model; CatchUp after out-of-band puts is "
            "exercised between polls)",
        ],
        search=search,
        partial=[],
    )
